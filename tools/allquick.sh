#!/bin/bash
# allquick.sh <tier> <seed...>: runs every check at each seed; prints one line per (check, seed).
tier=${1:-quick}; shift
cd "$(dirname "$0")/.."
# background sweeps run against a snapshot of /repo (vp run --with-repo) so that seeded patches applied to /repo meanwhile cannot leak in
if [ -n "$VP_RUN_REPO" ]; then export VERIF_REPO="$VP_RUN_REPO"; echo "using repo snapshot $VERIF_REPO ($(git -C $VERIF_REPO rev-parse --short HEAD 2>/dev/null))"; fi
for seed in "$@"; do
  for i in $(seq -w 1 20); do
    id=C$i
    out=$(VERIF_SEED=$seed ./check $id $tier 2>&1); rc=$?
    echo "seed=$seed $id rc=$rc $(echo "$out" | grep -c '^VIOLATION') violations $(echo "$out" | grep -c '^KNOWN-FINDING') known | $(echo "$out" | tail -1 | cut -c1-160)"
    if [ $rc -ne 0 ]; then echo "$out" | grep "VIOLATION\|INCONCLUSIVE\|  C" | head -5 | cut -c1-400; fi
  done
done
