package props

// C02 — honest provers can always prove and are never dropped or burned.

import (
	"bytes"
	"fmt"
	"math"
	"testing"
	"time"

	sdk "github.com/cosmos/cosmos-sdk/types"
	"pgregory.net/rapid"

	storagetypes "github.com/jackalLabs/canine-chain/v4/x/storage/types"

	"verifharness/chain"
	"verifharness/ev"
)

type c02Cfg struct {
	ChunkSize   int64
	Size        int64
	W, C, S     int64
	JoinWindow  int64
	Offsets     []int64 // proof offset inside window JoinWindow+i
	Gas         []uint64
	MaxProofs   int64
	Sparse      bool // skip heights at which nothing can happen (large windows)
	Others      []c02Other
	Lapsers     int   // provers that join the file right after it is posted and never prove again (they get dropped at reward blocks)
	OwnerProves bool  // the honest prover is the account that owns (posted and pays for) the file
	ProofType   int64 // proof_type of the posted files
	Batched     bool  // every proof travels in one transaction with a proof for a file that is gone
	Misses      int64 // the MissesToBurn parameter (0: leave the default); the property allows an honest prover no burn under any setting
	PayOnce     int64 // > 0: the main file is paid once and expires this many blocks after its start (the chain demands >= 1 day)
}

// c02Other is a further file of the same owner, posted Delay blocks after the main file (so its proof
// windows are out of phase with the main file's), which the same honest provider proves once per window.
type c02Other struct {
	Delay   int64
	Size    int64
	Offsets []int64 // proof offset inside window i of that file
}

type c02Out struct {
	sig, msg   string
	edge       bool // a reward block judged a non-young file whose last proof lay in the previous window
	dropped    bool // file vanished before the prover could join (nothing asserted)
	proofs     int
	others     int // further files posted and proven by the same honest provider
	rewardSeen int
	trace      []string
}

func c02Content(n int64) []byte {
	b := make([]byte, n)
	for i := range b {
		b[i] = byte((i*131 + 7) % 251)
	}
	return b
}

func c02Run(c *chain.Chain, cfg c02Cfg) (out c02Out) {
	w := newStorWorld(c, cfg.S)
	w.proofType = cfg.ProofType
	w.batched = cfg.Batched
	defer func() { out.trace = w.trace }()
	owner, prover := chain.Acc(0), chain.Acc(1)
	if cfg.OwnerProves {
		owner = prover // nothing forbids an owner to keep a replica of its own file and to be held to the same standard
	}
	w.setParams(func(p *storagetypes.Params) {
		p.ChunkSize, p.ProofWindow, p.CheckWindow, p.CollateralPrice = cfg.ChunkSize, cfg.W, cfg.C, 1000
		if cfg.Misses > 0 {
			p.MissesToBurn = cfg.Misses
		}
	})
	w.logf("params chunk=%d window=%d check=%d missesToBurn=%d (0 = default) ownerProves=%v; file size %d start %d; join window %d offsets %v", cfg.ChunkSize, cfg.W, cfg.C, cfg.Misses, cfg.OwnerProves, cfg.Size, cfg.S, cfg.JoinWindow, cfg.Offsets)
	if r := w.buyStorage(owner, owner.Bech, 30, 1_000_000_000, ""); !r.OK() {
		return c02Out{sig: "C02/harness", msg: "buy storage failed: " + r.String()}
	}
	if r := w.initProvider(prover, "https://prover.example.com"); !r.OK() {
		return c02Out{sig: "C02/harness", msg: "init provider failed: " + r.String()}
	}
	content := c02Content(cfg.Size)
	var expires int64
	if cfg.PayOnce > 0 {
		expires = cfg.S + cfg.PayOnce
	}
	f, r := w.postFile(owner, content, cfg.MaxProofs, expires)
	if !r.OK() {
		return c02Out{sig: "C02/harness", msg: "post file failed: " + r.String()}
	}
	// the repository's own client-side tree builder must agree with the tree the chain verifies against
	if root, err := utilsRoot(content, cfg.ChunkSize); err != nil || !bytes.Equal(root, f.Merkle) {
		return c02Out{sig: "C02/buildtree-root", msg: fmt.Sprintf("utils.BuildTree root %x differs from the reference tree root %x (err %v)", root, f.Merkle, err)}
	}
	// provers that take a slot first and then fall silent: the reward block drops them, which must not touch the honest ones
	for k := 0; k < cfg.Lapsers; k++ {
		l := chain.Acc(5 + k)
		if r := w.initProvider(l, fmt.Sprintf("https://lapser%d.example%d.org", k, k)); !r.OK() {
			return c02Out{sig: "C02/harness", msg: "init provider failed: " + r.String()}
		}
		if ok, emsg, _ := w.honestProve(l, f); !ok {
			return c02Out{sig: "C02/honest-proof-rejected", msg: "the first proof of a further holder was rejected: " + emsg}
		}
	}
	type honest struct {
		acc          chain.Account
		f            *sFile
		start        int64
		join         int64
		offsets      []int64
		joined       bool
		lastAccepted int64
	}
	provers := []*honest{{acc: prover, f: f, start: cfg.S, join: cfg.JoinWindow, offsets: cfg.Offsets, lastAccepted: -1}}
	if cfg.JoinWindow > 0 && cfg.MaxProofs-int64(cfg.Lapsers) >= 2 { // room for the helper besides the main prover and the lapsers
		// a second honest holder keeps the file alive from window 0 on (it is held to the same standard)
		helper := chain.Acc(2)
		if r := w.initProvider(helper, "https://helper.example.org"); !r.OK() {
			return c02Out{sig: "C02/harness", msg: "init provider failed: " + r.String()}
		}
		offs := make([]int64, int(cfg.JoinWindow)+len(cfg.Offsets))
		for i := range offs {
			offs[i] = int64(i) % cfg.W
		}
		provers = append(provers, &honest{acc: helper, f: f, start: cfg.S, join: 0, offsets: offs, lastAccepted: -1})
	}
	nWin := int64(len(cfg.Offsets))
	due := func(p *honest, h int64) (int, bool) {
		for i, off := range p.offsets {
			if p.start+(p.join+int64(i))*cfg.W+off == h {
				return i, true
			}
		}
		return 0, false
	}
	last := cfg.S + (cfg.JoinWindow+nWin+1)*cfg.W - 1 // through the window after the last proven one
	// Only reward heights and the heights at which somebody proves matter: the storage BeginBlocker returns at once at
	// any other height, so those blocks are skipped (which is what makes mainnet-sized windows affordable).
	interesting := func(h int64) bool {
		if h == cfg.S || h%cfg.C == 0 {
			return true
		}
		for _, o := range cfg.Others {
			if h == cfg.S+o.Delay {
				return true
			}
		}
		for _, p := range provers {
			if _, ok := due(p, h); ok {
				return true
			}
		}
		return false
	}
	prevH := cfg.S
	for h := cfg.S; h <= last; h++ {
		if cfg.Sparse && !interesting(h) {
			continue
		}
		if h > cfg.S {
			w.f.SetBlock(h, w.f.Time().Add(time.Duration(h-prevH)*6*time.Second))
			prevH = h
			if i, ok := due(provers[0], h); ok && i < len(cfg.Gas) {
				w.f.SetBlockGas(cfg.Gas[i])
			}
			if bb := w.f.BeginCustom(false, true); bb.Panic != nil {
				return c02Out{sig: "C02/panic", msg: fmt.Sprintf("storage BeginBlocker panicked at height %d: %v", h, bb.Panic)}
			}
			if w.isRewardHeight(h) {
				out.rewardSeen++
				w.logf("reward block")
				for _, p := range provers {
					if !p.joined {
						continue
					}
					listed := false
					for _, a := range w.listedProvers(p.f) {
						if a == p.acc.Bech {
							listed = true
						}
					}
					young := p.start+cfg.W >= h
					curWin := (h - p.start) / cfg.W
					if !young && p.lastAccepted >= 0 && (p.lastAccepted-p.start)/cfg.W == curWin-1 {
						out.edge = true
					}
					if !listed {
						out.sig, out.msg = "C02/honest-prover-removed", fmt.Sprintf("reward block at height %d removed %s from file %s although it proved in every window (last accepted proof at %d, file start %d, window %d)", h, short(p.acc.Bech), p.f.id(), p.lastAccepted, p.start, cfg.W)
						return
					}
					if b, found := w.burned(p.acc.Bech); !found || b != "0" {
						out.sig, out.msg = "C02/honest-prover-burned", fmt.Sprintf("burn counter of the honest provider %s is %q (found=%v) after the reward block at %d", short(p.acc.Bech), b, found, h)
						return
					}
				}
			}
		}
		for k, o := range cfg.Others {
			if h != cfg.S+o.Delay || o.Delay == 0 {
				continue
			}
			of, r := w.postFile(owner, append([]byte{byte(200 + k)}, c02Content(o.Size)...), 1, 0)
			if !r.OK() {
				return c02Out{sig: "C02/harness", msg: "post of a further file failed: " + r.String()}
			}
			provers = append(provers, &honest{acc: prover, f: of, start: h, join: 0, offsets: o.Offsets, lastAccepted: -1})
			out.others++
		}
		for _, p := range provers {
			f := p.f
			if _, ok := due(p, h); !ok {
				continue
			}
			if _, exists := w.getFile(f); !exists && !p.joined {
				out.dropped = true
				w.logf("file was dropped before the prover joined; nothing to assert")
				return
			}
			if ch, listed := w.challenge(p.acc.Bech, f); listed && (ch < 0 || ch >= f.numChunks()) {
				out.sig, out.msg = "C02/challenge-out-of-range", fmt.Sprintf("height %d: chain challenges chunk %d, file of %d bytes at chunk size %d has chunks 0..%d", h, ch, cfg.Size, cfg.ChunkSize, f.numChunks()-1)
				return
			}
			ok, emsg, ch := w.honestProve(p.acc, f)
			if !ok {
				out.sig, out.msg = "C02/honest-proof-rejected", fmt.Sprintf("height %d: honest proof for challenged chunk %d rejected: %s", h, ch, emsg)
				return
			}
			out.proofs++
			p.joined = true
			p.lastAccepted = h
			if nch, _ := w.challenge(p.acc.Bech, f); nch < 0 || nch >= f.numChunks() {
				out.sig, out.msg = "C02/challenge-out-of-range", fmt.Sprintf("after the proof at height %d the chain challenges chunk %d, file has chunks 0..%d", h, nch, f.numChunks()-1)
				return
			}
		}
	}
	return
}

func genC02(rt *rapid.T) c02Cfg {
	var cfg c02Cfg
	cfg.ChunkSize = rapid.OneOf(rapid.Int64Range(1, 4), rapid.Int64Range(1, 64), rapid.Just(int64(1024))).Draw(rt, "chunkSize")
	nChunks := rapid.Int64Range(0, 6).Draw(rt, "fullChunks")
	rem := rapid.Int64Range(0, cfg.ChunkSize-1).Draw(rt, "remainder")
	if rapid.IntRange(0, 2).Draw(rt, "exactMultiple") == 0 {
		rem = 0
	}
	cfg.Size = nChunks*cfg.ChunkSize + rem
	if cfg.Size < 1 {
		cfg.Size = 1
	}
	cfg.OwnerProves = rapid.IntRange(0, 3).Draw(rt, "ownerProves") == 0
	cfg.Batched = rapid.IntRange(0, 3).Draw(rt, "batchedProofs") == 0
	cfg.ProofType = rapid.SampledFrom([]int64{0, 0, 0, 1, 2, -1, math.MaxInt64}).Draw(rt, "proofType")
	cfg.Misses = rapid.SampledFrom([]int64{0, 0, 1, 1, 2, 3, 5}).Draw(rt, "missesToBurn")
	cfg.W = rapid.Int64Range(2, 24).Draw(rt, "proofWindow")
	cfg.C = rapid.Int64Range(2, 24).Draw(rt, "checkWindow")
	if rapid.IntRange(0, 3).Draw(rt, "largeWindows") == 0 { // default (50/100) and mainnet-sized windows
		cfg.W = rapid.SampledFrom([]int64{50, 100, 600, 7200}).Draw(rt, "proofWindowLarge")
		cfg.C = rapid.SampledFrom([]int64{7, 50, 100, 101, 1200}).Draw(rt, "checkWindowLarge")
		cfg.Sparse = true
	}
	cfg.S = rapid.Int64Range(1, 3*cfg.W*cfg.C).Draw(rt, "start")
	cfg.JoinWindow = int64(rapid.IntRange(0, 1).Draw(rt, "joinWindow"))
	cfg.MaxProofs = rapid.Int64Range(1, 3).Draw(rt, "maxProofs")
	if cfg.JoinWindow > 0 && rapid.IntRange(0, 4).Draw(rt, "keepAlive") > 0 {
		cfg.MaxProofs = rapid.Int64Range(2, 3).Draw(rt, "maxProofs2")
	}
	n := rapid.IntRange(3, 6).Draw(rt, "windows")
	for i := 0; i < n; i++ {
		off := rapid.OneOf(rapid.Just(int64(0)), rapid.Just(cfg.W-1), rapid.Int64Range(0, cfg.W-1)).Draw(rt, fmt.Sprintf("offset%d", i))
		// weight "same height as a reward block" up
		if rapid.IntRange(0, 3).Draw(rt, fmt.Sprintf("onReward%d", i)) == 0 {
			base := cfg.S + (cfg.JoinWindow+int64(i))*cfg.W
			for o := int64(0); o < cfg.W; o++ {
				if (base+o)%cfg.C == 0 {
					off = o
					break
				}
			}
		}
		cfg.Offsets = append(cfg.Offsets, off)
		cfg.Gas = append(cfg.Gas, rapid.OneOf(rapid.Just(uint64(0)), rapid.Uint64Range(0, 1<<40)).Draw(rt, fmt.Sprintf("gas%d", i)))
	}
	if rapid.IntRange(0, 2).Draw(rt, "lapsers") == 0 {
		cfg.Lapsers = rapid.IntRange(1, 2).Draw(rt, "howManyLapsers")
		cfg.MaxProofs += int64(cfg.Lapsers)
	}
	// a file paid once, whose paid period ends while the schedule is still running (large windows only: the chain demands
	// at least a day, 14400 blocks); an expired file is a file like any other for its provers
	if cfg.Sparse && rapid.IntRange(0, 2).Draw(rt, "payOnce") == 0 {
		cfg.W = rapid.SampledFrom([]int64{3600, 7200, 14400}).Draw(rt, "proofWindowPayOnce")
		cfg.PayOnce = 14400 + rapid.Int64Range(1, 2*cfg.W).Draw(rt, "expiresAfter")
		for i := range cfg.Offsets {
			if cfg.Offsets[i] >= cfg.W {
				cfg.Offsets[i] = cfg.W - 1
			}
		}
		cfg.S = rapid.Int64Range(1, 3*cfg.C).Draw(rt, "startPayOnce")
	}
	// further files of the same owner, out of phase with the main one, proven by the same provider in each of their windows
	for k, n := 0, rapid.SampledFrom([]int{0, 0, 1, 2}).Draw(rt, "otherFiles"); k < n; k++ {
		o := c02Other{Delay: rapid.Int64Range(1, 2*cfg.W).Draw(rt, fmt.Sprintf("otherDelay%d", k)), Size: rapid.Int64Range(1, 3*cfg.ChunkSize).Draw(rt, fmt.Sprintf("otherSize%d", k))}
		for i := 0; i < len(cfg.Offsets)+int(cfg.JoinWindow)+2; i++ {
			o.Offsets = append(o.Offsets, rapid.OneOf(rapid.Just(int64(0)), rapid.Just(cfg.W-1), rapid.Int64Range(0, cfg.W-1)).Draw(rt, fmt.Sprintf("otherOffset%d_%d", k, i)))
		}
		cfg.Others = append(cfg.Others, o)
	}
	return cfg
}

func TestC02(t *testing.T) {
	rec := ev.For("C02")
	rec.Describe("fork-mode schedules: file of 1..6*chunk+rest bytes (all residues incl. exact multiples and 1-byte files), chunk size 1..64 or 1024, proof window W and check window C in [2,24], file start S in [1,3WC], an honest registered provider joining in window 0 or 1 and proving once per file window at generated offsets (0, W-1 and 'same height as a reward block' weighted up) with generated block-gas seeds for the next challenge, run through the window after the last proof; a third of the large-window schedules use a file paid once that expires (>= 14400 blocks after its start) while the schedule is still running; a third of the schedules start with one or two further provers that take a slot and never prove again; in half of the schedules the same provider also proves, once per window, one or two further files posted 1..2W blocks later (windows out of phase). Oracle: every challenge < ceil(size/chunk); every honest proof (tree built from the property's leaf encoding, cross-checked with utils.BuildTree's root) gets Success=true; after every reward block the prover is still listed and its BurnedContracts is \"0\". Thorough tier additionally enumerates exhaustively W,C in [2,9], S in [1,WC], join window {0,1}, three windows with offsets {0, W/2, W-1}. Non-trivial = a reward block judged the non-young file while the last accepted proof lay in the previous window; distinct = distinct configurations.",
		"the owner holds a plan bought by a real BuyStorage; CollateralPrice lowered by parameter change so the provider can register")
	c := chain.New(chain.GenesisOpts{NumAccounts: 8, Balance: sdk.NewCoins(sdk.NewInt64Coin("ujkl", 1_000_000_000_000))})
	defer c.Close()

	record := func(cfg c02Cfg, o c02Out) {
		rec.Count(fmt.Sprintf("proofs=%d", o.proofs))
		if cfg.PayOnce > 0 {
			rec.Count("pay-once-file-running-past-its-expiry")
		}
		if cfg.Lapsers > 0 {
			rec.Count("files-with-lapsing-fellow-provers")
		}
		if o.others > 0 {
			rec.Count(fmt.Sprintf("further-files=%d", o.others))
		}
		if o.dropped {
			rec.Count("file-dropped-before-join")
		}
		if cfg.Size%cfg.ChunkSize == 0 {
			rec.Count("exact-multiple-size")
		}
		rec.Case(o.edge, ev.Hash(js(cfg)), func() interface{} { return map[string]interface{}{"config": cfg, "trace": o.trace} })
	}

	if os_only_regress() {
		return
	}
	search(t, rec, "schedule", budget(2500, 480000), 0, func(rt *rapid.T) {
		cfg := genC02(rt)
		o := c02Run(c, cfg)
		if o.sig != "" {
			failf(rt, rec, o.sig, map[string]interface{}{"config": cfg, "trace": o.trace}, "%s", o.msg)
		}
		record(cfg, o)
	})

	if Tier() == "thorough" {
		t.Run("exhaustive", func(t *testing.T) {
			shards, me := 1, shardIndex()
			if s := envInt("VERIF_SHARDS"); s > 0 {
				shards = s
			}
			n := 0
			complete := true
			for W := int64(2); W <= 9 && complete; W++ {
				for C := int64(2); C <= 9 && complete; C++ {
					for S := int64(1); S <= W*C && complete; S++ {
						for jw := int64(0); jw <= 1; jw++ {
							offs := []int64{0, W / 2, W - 1}
							for a := 0; a < 3; a++ {
								for b := 0; b < 3; b++ {
									for d := 0; d < 3; d++ {
										n++
										if n%shards != me {
											continue
										}
										cfg := c02Cfg{ChunkSize: 2, Size: 7, W: W, C: C, S: S, JoinWindow: jw, MaxProofs: 2,
											Offsets: []int64{offs[a], offs[b], offs[d]}, Gas: []uint64{uint64(n), uint64(n) * 7, 3}}
										o := c02Run(c, cfg)
										if o.sig != "" {
											rec.Fail(ev.Violation{Sig: o.sig, Message: o.msg, Trace: map[string]interface{}{"config": cfg, "trace": o.trace}})
											rec.Flush("exhaustive", 0, "")
											t.Errorf("%s: %s", o.sig, o.msg)
											complete = false
										}
										record(cfg, o)
									}
								}
							}
						}
					}
				}
			}
			rec.Exhaustive["W,C in [2,9] x S in [1,WC] x join window {0,1} x offsets {0,W/2,W-1}^3 (size 7, chunk 2)"] = complete
			rec.Add("exhaustive-schedules", int64(n))
		})
	}
}
