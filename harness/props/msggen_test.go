package props

// Reflection-based generator over every Msg type of the custom modules, enumerated from
// the app's interface registry (used by C05, C06, C11 and C19).

import (
	"fmt"
	"math"
	"reflect"
	"sort"
	"strings"

	sdk "github.com/cosmos/cosmos-sdk/types"
	"github.com/gogo/protobuf/proto"
	"pgregory.net/rapid"

	"verifharness/chain"
)

// customMsgURLs lists the type URLs of all custom-module messages registered with the app.
func customMsgURLs(c *chain.Chain) []string {
	var out []string
	for _, u := range c.App.InterfaceRegistry.ListImplementations("cosmos.base.v1beta1.Msg") {
		if strings.HasPrefix(u, "/canine_chain.") {
			out = append(out, u)
		}
	}
	sort.Strings(out)
	return out
}

func newMsgOf(c *chain.Chain, url string) sdk.Msg {
	m, err := c.App.InterfaceRegistry.Resolve(url)
	must(err)
	v := reflect.New(reflect.TypeOf(m).Elem()).Interface()
	return v.(sdk.Msg)
}

// fillEnv is the pool that string/bytes fields are taken from.
type fillEnv struct {
	Accounts []string // bech32 addresses of accounts that hold a key (they can be creators)
	Keyless  []string // further valid addresses nobody can sign for (gauge accounts, module accounts): never a creator
	Names    []string // rns names
	Merkles  [][]byte
	Starts   []int64
	Strings  []string // filetree addresses, hashes, ids ...
	Height   int64
}

var advInt64 = []int64{0, 1, -1, 2, 3, 7, 30, 365, 1000, 1024, 1 << 20, 1_000_000_000, 3_000_000_000, 1 << 40, 1 << 62, -(1 << 62), math.MaxInt64, math.MinInt64, math.MaxInt64 / 2, math.MaxInt64/3 + 1}

// fillMsg assigns every field of msg.  distinctAddrs != nil makes every string field a distinct address
// taken from that list (C11's family of cases).
func fillMsg(rt *rapid.T, msg sdk.Msg, env *fillEnv, distinctAddrs []string) {
	v := reflect.ValueOf(msg).Elem()
	t := v.Type()
	next := 0
	for i := 0; i < v.NumField(); i++ {
		f := v.Field(i)
		name := t.Field(i).Name
		if strings.HasPrefix(name, "XXX_") || !f.CanSet() {
			continue
		}
		label := fmt.Sprintf("%s.%s", t.Name(), name)
		switch f.Kind() {
		case reflect.String:
			if distinctAddrs != nil {
				f.SetString(distinctAddrs[next%len(distinctAddrs)])
				next++
				continue
			}
			f.SetString(genStringField(rt, label, name, env))
		case reflect.Int64:
			f.SetInt(genIntField(rt, label, name, env))
		case reflect.Bool:
			f.SetBool(rapid.Bool().Draw(rt, label))
		case reflect.Slice:
			switch f.Type().Elem().Kind() {
			case reflect.Uint8:
				f.SetBytes(genBytesField(rt, label, name, env))
			case reflect.String:
				n := rapid.IntRange(0, 3).Draw(rt, label+"-n")
				s := make([]string, n)
				for j := range s {
					s[j] = genStringField(rt, fmt.Sprintf("%s%d", label, j), "Address", env)
				}
				f.Set(reflect.ValueOf(s))
			}
		case reflect.Struct:
			if f.Type() == reflect.TypeOf(sdk.Coin{}) {
				denom := rapid.SampledFrom([]string{"ujkl", "ujkl", "uatom", "x", ""}).Draw(rt, label+"-denom")
				amt := rapid.SampledFrom(advInt64).Draw(rt, label+"-amt")
				f.Set(reflect.ValueOf(sdk.Coin{Denom: denom, Amount: sdk.NewInt(amt)}))
			}
		}
	}
}

func genStringField(rt *rapid.T, label, name string, env *fillEnv) string {
	lname := strings.ToLower(name)
	pick := func(pool []string) string {
		if len(pool) == 0 {
			return ""
		}
		return pool[rapid.IntRange(0, len(pool)-1).Draw(rt, label)]
	}
	odd := func() string {
		return rapid.SampledFrom([]string{"", " ", "x", "/", "{}", `{"a":1}`, "not json", "jkl1notanaddress", "a,b", strings.Repeat("z", 300), "http://localhost:3333", "https://a.b.example.com", "ujkl"}).Draw(rt, label+"-odd")
	}
	r := rapid.IntRange(0, 9).Draw(rt, label+"-kind")
	switch {
	case lname == "creator":
		return pick(env.Accounts)
	case strings.Contains(lname, "address") && lname != "address", lname == "receiver", lname == "from", lname == "prover", lname == "owner", lname == "to", lname == "referral", lname == "value":
		if r == 0 {
			return odd()
		}
		if r == 1 && len(env.Names) > 0 {
			return pick(env.Names)
		}
		if r == 2 {
			return strings.ToUpper(pick(env.Accounts)) // all-upper-case bech32: same account, other spelling
		}
		if r == 3 && len(env.Keyless) > 0 {
			return pick(env.Keyless)
		}
		return pick(env.Accounts)
	case lname == "name":
		if r == 0 {
			return odd()
		}
		return pick(env.Names)
	case lname == "ip":
		return rapid.SampledFrom([]string{"https://a.example.com", "http://b.example.org:3333", "http://localhost:3333", "junk", "http://10.0.0.1", "/relative"}).Draw(rt, label+"-ip")
	case lname == "note", lname == "contents", lname == "data", lname == "viewers", lname == "editors":
		return rapid.SampledFrom([]string{"{}", `{"k":"v"}`, `{"price":"0.5","24h_change":"0"}`, `{"price":"0"}`, `{"price":"-1"}`, `{"price":"0.000000000000000001"}`, `{"price":"1000000000000000000000000000000"}`, "not json", "", `[[[[[[[[]]]]]]]]`, strings.Repeat("a", 2000)}).Draw(rt, label+"-json")
	case lname == "paymentdenom":
		return rapid.SampledFrom([]string{"ujkl", "ujkl", "ujkl", "uatom", ""}).Draw(rt, label+"-denom")
	}
	if r < 6 && len(env.Strings) > 0 {
		return pick(env.Strings)
	}
	if r < 8 {
		return pick(env.Accounts)
	}
	return odd()
}

func genIntField(rt *rapid.T, label, name string, env *fillEnv) int64 {
	lname := strings.ToLower(name)
	r := rapid.IntRange(0, 9).Draw(rt, label+"-kind")
	switch lname {
	case "start", "time":
		if r < 7 && len(env.Starts) > 0 {
			return env.Starts[rapid.IntRange(0, len(env.Starts)-1).Draw(rt, label)]
		}
	case "expires":
		if r < 5 {
			return env.Height + rapid.SampledFrom([]int64{-1, 0, 1, 14_400, 14_401, 100_000, 5_256_000, 1_600_000_000, 2_100_000_000, 3_000_000_000}).Draw(rt, label+"-rel")
		}
		if r < 7 {
			return 0
		}
	case "filesize":
		if r < 5 {
			return rapid.Int64Range(1, 5000).Draw(rt, label)
		}
	case "maxproofs":
		if r < 6 {
			return rapid.Int64Range(1, 4).Draw(rt, label)
		}
	case "durationdays":
		if r < 6 {
			return rapid.SampledFrom([]int64{30, 31, 60, 365, 366, 3650}).Draw(rt, label)
		}
	case "bytes":
		if r < 6 {
			return rapid.SampledFrom([]int64{1_000_000_000, 3_000_000_000, 5_000_000_000_000, 20_000_000_000_000, math.MaxInt64, math.MaxInt64 / 2}).Draw(rt, label)
		}
	case "years":
		if r < 6 {
			return rapid.Int64Range(1, 3).Draw(rt, label)
		}
	case "toprove":
		if r < 7 {
			return rapid.Int64Range(0, 3).Draw(rt, label)
		}
	}
	return rapid.SampledFrom(advInt64).Draw(rt, label+"-adv")
}

func genBytesField(rt *rapid.T, label, name string, env *fillEnv) []byte {
	lname := strings.ToLower(name)
	r := rapid.IntRange(0, 9).Draw(rt, label+"-kind")
	if lname == "merkle" && r < 8 && len(env.Merkles) > 0 {
		return env.Merkles[rapid.IntRange(0, len(env.Merkles)-1).Draw(rt, label)]
	}
	switch rapid.IntRange(0, 4).Draw(rt, label+"-shape") {
	case 0:
		return nil
	case 1:
		return []byte{byte(rapid.IntRange(0, 255).Draw(rt, label+"-b"))}
	case 2:
		b := make([]byte, 64)
		b[0] = byte(rapid.IntRange(0, 255).Draw(rt, label+"-b"))
		return b
	case 3:
		return []byte(`{"hashes":[],"index":0}`)
	}
	return rapid.SliceOfN(rapid.Byte(), 0, 40).Draw(rt, label)
}

func msgSummary(m sdk.Msg) string {
	s := proto.CompactTextString(m.(proto.Message))
	if len(s) > 260 {
		s = s[:260] + "…"
	}
	u := sdk.MsgTypeURL(m)
	return u[strings.LastIndex(u, ".")+1:] + "{" + s + "}"
}
