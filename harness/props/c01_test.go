package props

// C01 — no storage reward or prover status without a valid proof of the challenged chunk.

import (
	"encoding/json"
	"fmt"
	"math/big"
	"strings"
	"testing"
	"time"

	sdk "github.com/cosmos/cosmos-sdk/types"
	tmrand "github.com/tendermint/tendermint/libs/rand"
	merkletree "github.com/wealdtech/go-merkletree/v2"
	"pgregory.net/rapid"

	storagetypes "github.com/jackalLabs/canine-chain/v4/x/storage/types"

	"verifharness/chain"
	"verifharness/ev"
)

type c01State struct {
	Listed     bool
	HasRecord  bool
	LastProven int64
	Chunk      int64
}

type c01World struct {
	restarts int
	*storSim
	owner     chain.Account
	accounts  []chain.Account // everybody who may submit proofs
	holders   map[string]bool // accounts that own the data (submit honest proofs)
	deleted   map[string]bool // files their owner has deleted
	deletions int
	// classes seen
	rejectedDishonestOnOpenFile bool
	paidAfterRejection          bool
	crossIndexTried             bool
	classes                     map[string]int
}

func (w *c01World) state() map[string]c01State {
	out := map[string]c01State{}
	for _, f := range w.files {
		listed := map[string]bool{}
		for _, p := range w.listedProvers(f) {
			listed[p] = true
		}
		for _, a := range w.accounts {
			st := c01State{Listed: listed[a.Bech]}
			if p, found := w.c.App.StorageKeeper.GetProof(w.f.Ctx, a.Bech, f.Merkle, f.Owner, f.Start); found {
				st.HasRecord, st.LastProven, st.Chunk = true, p.LastProven, p.ChunkToProve
			}
			out[pairKey(a.Bech, f)] = st
		}
	}
	return out
}

// submission is one MsgPostProof plus what the reference verifier says about it.
type c01Submission struct {
	Class    string
	Prover   chain.Account
	Target   *sFile // file addressed (nil if the address matches no file)
	Merkle   []byte
	Owner    string
	Start    int64
	Item     []byte
	HashList []byte
	ToProve  int64
}

// refValid: the submission is a valid proof of exactly the chunk the chain challenges this account with,
// for an existing file on which the account is listed or which has a free slot.
func (w *c01World) refValid(s c01Submission) bool {
	if s.Target == nil {
		return false
	}
	uf, exists := w.getFile(s.Target)
	if !exists || w.deleted[s.Target.key()] {
		return false // unknown to the chain, or deleted by its owner: a file nobody can prove any more
	}
	member := false
	for _, p := range w.listedProvers(s.Target) {
		if p == s.Prover.Bech {
			member = true
		}
	}
	if !member && int64(len(uf.Proofs)) >= uf.MaxProofs {
		return false
	}
	ch, _ := w.challenge(s.Prover.Bech, s.Target) // 0 for a joining account
	if s.ToProve != ch {
		return false
	}
	return refVerify(s.Target.Merkle, ch, s.Item, s.HashList)
}

func (w *c01World) submit(s c01Submission) (string, string) {
	before := w.state()
	valid := w.refValid(s)
	openFile := false
	if s.Target != nil {
		if uf, ok := w.getFile(s.Target); ok && int64(len(uf.Proofs)) < uf.MaxProofs {
			openFile = true
		}
	}
	ok, emsg, res := w.postProofRaw(s.Prover, s.Merkle, s.Owner, s.Start, s.Item, s.HashList, s.ToProve)
	w.logf("proof[%s] by %s for %x/%s/%d toProve=%d item=%dB hashlist=%dB referenceValid=%v -> success=%v %s", s.Class, short(s.Prover.Bech), s.Merkle[:min(4, len(s.Merkle))], short(s.Owner), s.Start, s.ToProve, len(s.Item), len(s.HashList), valid, ok, trunc(emsg, 60))
	w.classes[s.Class]++
	_ = res
	after := w.state()
	if !valid && ok {
		return "C01/invalid-proof-accepted/" + s.Class, fmt.Sprintf("%s's submission (class %s) is not a valid proof of the challenged chunk of an open/own file, but the chain answered Success=true", short(s.Prover.Bech), s.Class)
	}
	var tk string
	if s.Target != nil {
		tk = pairKey(s.Prover.Bech, s.Target)
	}
	for k, b := range before {
		a := after[k]
		if a == b {
			continue
		}
		who := short(strings.SplitN(k, "|", 2)[0])
		if k != tk {
			return "C01/other-pair-changed", fmt.Sprintf("a submission by %s changed prover state of %s: %+v -> %+v", short(s.Prover.Bech), who, b, a)
		}
		if !valid || !ok {
			return "C01/rejected-proof-changed-state/" + s.Class, fmt.Sprintf("%s's submission (class %s, referenceValid=%v, Success=%v) changed its prover state on the file from %+v to %+v", who, s.Class, valid, ok, b, a)
		}
	}
	if valid && ok {
		k := pairKey(s.Prover.Bech, s.Target)
		if p, had := w.pairs[k]; had {
			p.LastAccepted = w.f.Height()
		} else {
			w.pairs[k] = &simPair{Prover: s.Prover.Bech, File: s.Target, LastAccepted: w.f.Height(), Joined: w.f.Height()}
		}
		if a := after[k]; !a.Listed || !a.HasRecord || a.LastProven != w.f.Height() {
			return "C01/accepted-proof-not-recorded", fmt.Sprintf("accepted valid proof left state %+v", a)
		}
	}
	if !valid && !ok && openFile && !before[tk].Listed && s.Target != nil {
		w.rejectedDishonestOnOpenFile = true
	}
	return "", ""
}

func trunc(s string, n int) string {
	if len(s) > n {
		return s[:n] + "…"
	}
	return s
}

// attest: a listed prover asks for an attestation form, named providers sign; the deadline of that prover may be
// refreshed only at the step at which the number of distinct named signers reaches AttestMinToPass.
func (w *c01World) requestAttest(p chain.Account, f *sFile) (string, string) {
	before := w.state()
	res := w.f.Exec(newMsgRequestAttestationForm(p.Bech, f.Merkle, f.Owner, f.Start))
	w.logf("request attestation form by %s for %s -> %s", short(p.Bech), f.id(), res)
	for k, b := range before {
		if a := w.state()[k]; a != b {
			return "C01/attest-request-changed-state", fmt.Sprintf("requesting a form changed prover state %+v -> %+v", b, a)
		}
	}
	return "", ""
}

func (w *c01World) attest(signer, prover chain.Account, f *sFile) (string, string) {
	before := w.state()
	form, had := w.c.App.StorageKeeper.GetAttestationForm(w.f.Ctx, prover.Bech, f.Merkle, f.Owner, f.Start)
	named, signed := false, map[string]bool{}
	if had {
		for _, a := range form.Attestations {
			if a.Complete {
				signed[a.Provider] = true
			}
			if a.Provider == signer.Bech {
				named = true
			}
		}
	}
	if named {
		signed[signer.Bech] = true
	}
	fire := had && named && int64(len(signed)) >= w.params().AttestMinToPass
	res := w.f.Exec(newMsgAttest(signer.Bech, prover.Bech, f.Merkle, f.Owner, f.Start))
	w.logf("attest by %s about %s on %s (form=%v named=%v distinct signers=%d) -> %s", short(signer.Bech), short(prover.Bech), f.id(), had, named, len(signed), res)
	after := w.state()
	pk := pairKey(prover.Bech, f)
	for k, b := range before {
		a := after[k]
		if a == b {
			continue
		}
		if k == pk && fire && b.Listed && a.Listed && a.LastProven == w.f.Height() && a.Chunk == b.Chunk {
			if p, ok := w.pairs[pk]; ok {
				p.LastAccepted = w.f.Height()
			}
			w.classes["attest-refresh"]++
			continue
		}
		return "C01/attestation-without-quorum", fmt.Sprintf("attest by %s (named=%v, distinct named signers %d, minimum %d) changed prover state of %s from %+v to %+v", short(signer.Bech), named, len(signed), w.params().AttestMinToPass, short(strings.SplitN(k, "|", 2)[0]), b, a)
	}
	return "", ""
}

// rewardOracle: whoever is paid must hold a model pair (i.e. has validly proven a file it is listed on).
func (w *c01World) rewardOracle(pre, post *rewardSnap) (string, string) {
	gauges := map[string]bool{}
	for a := range pre.Gauges {
		gauges[a] = true
	}
	paid := false
	for _, d := range pre.Bal.Diff(post.Bal) {
		if gauges[d.Addr] || d.Addr == storageModuleAddr || !d.Diff.IsPositive() {
			continue
		}
		paid = true
		legit := false
		for _, p := range w.pairs {
			if p.Prover == d.Addr {
				if fs, ok := pre.Files[p.File.key()]; ok {
					for _, l := range fs.Provers {
						if l == d.Addr {
							legit = true
						}
					}
				}
			}
		}
		if !legit {
			return "C01/reward-without-valid-proof", fmt.Sprintf("reward block at %d paid %s%s to %s, which has never validly proven any file it is listed on", post.Height, d.Diff, d.Denom, short(d.Addr))
		}
	}
	// nobody is paid for a file it has not validly proven: a prover's payout is bounded by the share its validly
	// proven, still-honoured files give it under the most generous reading (denominator = counted provers only)
	credit := map[string]*big.Int{}
	total := new(big.Int)
	R := new(big.Int)
	for _, d := range pre.Bal.Diff(post.Bal) {
		if gauges[d.Addr] && d.Diff.IsNegative() {
			R.Sub(R, d.Diff.BigInt())
		}
	}
	for _, fk := range sortedFileKeys(pre.Files) {
		fs := pre.Files[fk]
		for _, p := range fs.Provers {
			pm, ok := w.pairs[p+"|"+fk]
			if !ok {
				continue
			}
			if _, met := obligationMet(post.Height, fs.Start, fs.Window, pm.LastAccepted); met {
				if credit[p] == nil {
					credit[p] = new(big.Int)
				}
				credit[p].Add(credit[p], big.NewInt(fs.Size))
				total.Add(total, big.NewInt(fs.Size))
			}
		}
	}
	for _, d := range pre.Bal.Diff(post.Bal) {
		if gauges[d.Addr] || d.Addr == storageModuleAddr || !d.Diff.IsPositive() {
			continue
		}
		c := credit[d.Addr]
		if c == nil || total.Sign() == 0 {
			return "C01/reward-without-valid-proof", fmt.Sprintf("reward block at %d paid %s to %s, which holds no validly proven, still honoured file", post.Height, d.Diff, short(d.Addr))
		}
		hi := new(big.Int).Mul(R, c)
		hi.Quo(hi, total)
		hi.Add(hi, big.NewInt(1))
		if d.Diff.BigInt().Cmp(hi) > 0 {
			return "C01/reward-exceeds-proven-share", fmt.Sprintf("reward block at %d released %s; %s validly holds size %s of %s counted, but was paid %s (> %s): it is being paid for files it has not proven", post.Height, R, short(d.Addr), c, total, d.Diff, hi)
		}
	}
	// prover status is kept only by proofs: whoever was listed on a file that is past its first window and has no valid
	// proof (or completed attestation) recent enough must be off the list after the reward block
	for _, fk := range sortedFileKeys(pre.Files) {
		fs := pre.Files[fk]
		after, still := post.Files[fk]
		if !still {
			continue
		}
		for _, p := range fs.Provers {
			last := int64(-1 << 40)
			if pm, ok := w.pairs[p+"|"+fk]; ok {
				last = pm.LastAccepted
			}
			if _, met := obligationMet(post.Height, fs.Start, fs.Window, last); met {
				continue
			}
			for _, q := range after.Provers {
				if q == p {
					return "C01/prover-status-kept-without-proof", fmt.Sprintf("reward block at %d: %s is still listed on %s (start %d, window %d) although its last valid proof or attestation dates from %d", post.Height, short(p), fk[:8], fs.Start, fs.Window, last)
				}
			}
			w.classes["dropped-for-missing-proofs"]++
		}
	}
	// membership may only shrink in a reward block
	for fk, fs := range post.Files {
		for _, p := range fs.Provers {
			found := false
			for _, q := range pre.Files[fk].Provers {
				if p == q {
					found = true
				}
			}
			if !found {
				return "C01/prover-added-by-reward-block", fmt.Sprintf("%s appeared on %s in a reward block", short(p), fk[:8])
			}
		}
	}
	if paid && w.rejectedDishonestOnOpenFile {
		w.paidAfterRejection = true
	}
	return "", ""
}

// findGas searches a block-gas value for which the chain's challenge RNG (seeded with gas+height) yields `want`.
func findGas(height, pieces, want int64, from uint64) (uint64, bool) {
	for g := from; g < from+20000; g++ {
		r := tmrand.NewRand()
		r.Seed(int64(g) + height)
		if r.Int63n(pieces) == want {
			return g, true
		}
	}
	return 0, false
}

func (f *sFile) pieces() int64 { // the chain's divisor for challenges
	p := f.FileSize / f.ChunkSize
	if f.FileSize%f.ChunkSize == 0 {
		p--
	}
	return p
}

func mutateProof(rt *rapid.T, hl []byte) []byte {
	var p merkletree.Proof
	if json.Unmarshal(hl, &p) != nil {
		return []byte("{}")
	}
	switch rapid.IntRange(0, 5).Draw(rt, "proofMutation") {
	case 0:
		if len(p.Hashes) > 0 {
			p.Hashes = p.Hashes[:len(p.Hashes)-1]
		}
	case 1:
		p.Hashes = append(p.Hashes, make([]byte, 64))
	case 2:
		if len(p.Hashes) >= 2 {
			p.Hashes[0], p.Hashes[1] = p.Hashes[1], p.Hashes[0]
		} else {
			p.Index++
		}
	case 3:
		p.Index ^= 1
	case 4:
		p.Index += uint64(rapid.IntRange(1, 300).Draw(rt, "indexShift"))
	default:
		if len(p.Hashes) > 0 {
			h := append([]byte{}, p.Hashes[0]...)
			h[0] ^= 0x40
			p.Hashes[0] = h
		}
	}
	b, _ := json.Marshal(p)
	return b
}

func newC01World(c *chain.Chain, chunk, W, C int64) *c01World {
	w := &c01World{storSim: newStorSim(c, 4), owner: chain.Acc(0), holders: map[string]bool{}, classes: map[string]int{}, deleted: map[string]bool{}}
	w.setParams(func(p *storagetypes.Params) {
		p.ChunkSize, p.ProofWindow, p.CheckWindow, p.CollateralPrice = chunk, W, C, 1000
	})
	w.logf("params chunk=%d window=%d check=%d", chunk, W, C)
	must2(w.buyStorage(w.owner, w.owner.Bech, 30, 2_000_000_000, ""))
	w.onReward = w.rewardOracle
	return w
}

func (w *c01World) addAccount(i int, holder, register bool) chain.Account {
	a := chain.Acc(i)
	w.accounts = append(w.accounts, a)
	if holder {
		w.holders[a.Bech] = true
	}
	if register {
		w.f.Fund(a.Addr, sdk.NewCoins(sdk.NewInt64Coin("ujkl", 1000)))
		must2(w.initProvider(a, fmt.Sprintf("https://n%d.dom%d.com", i, i)))
	}
	return a
}

func (w *c01World) fundGauge(amount int64) {
	coins := sdk.NewCoins(sdk.NewInt64Coin("ujkl", amount))
	ctx, write := w.f.Ctx.CacheContext()
	must(w.c.App.BankKeeper.SendCoinsFromAccountToModule(ctx, w.owner.Addr, storagetypes.ModuleName, coins))
	g := w.c.App.StorageKeeper.NewGauge(ctx, coins, ctx.BlockTime().Add(30*24*time.Hour))
	acc, err := storagetypes.GetGaugeAccount(g)
	must(err)
	must(w.c.App.BankKeeper.SendCoinsFromModuleToAccount(ctx, storagetypes.ModuleName, acc, coins))
	write()
}

// honestSubmission builds the proof an honest holder derives for its current challenge.
func (w *c01World) honestSubmission(a chain.Account, f *sFile) (c01Submission, bool) {
	ch, _ := w.challenge(a.Bech, f)
	item, hl, err := f.honestProof(ch)
	if err != nil {
		return c01Submission{}, false
	}
	return c01Submission{Class: "honest", Prover: a, Target: f, Merkle: f.Merkle, Owner: f.Owner, Start: f.Start, Item: item, HashList: hl, ToProve: ch}, true
}

func TestC01(t *testing.T) {
	rec := ev.For("C01")
	rec.Describe("stateful fork-mode histories (rapid state machine): chunk size in {1,2,3,16,1024}, 1-3 real files of 1..320 chunks (some >100 chunks), MaxProofs 1-7, 2-7 holders (some without a provider registration), attestation forms of 1-5 names, restarts, submitting the proof derived from the real tree and 1-3 dishonest accounts (with and without provider records) drawing from nine mutation classes: mutated item; genuine proof+data of another chunk; cross-index (proof of leaf j whose decimal index extends the challenged index by two digits, item = those digits as one byte || chunk j, the challenge being steered to 1..3 through the block-gas seed); truncated/extended/permuted/retargeted hash list and wrong Index; garbage JSON; stale or wrong ToProve; right proof addressed to another/unknown file; submission to a full file; plus block advance through reward blocks with funded gauges. Oracle: a reference verifier written from the property (leaf sha256(decimal(i)||hex(item)), path for position i, i = stored challenge, file open or already joined) decides validity of every submission; an invalid one must answer Success=false and change nothing for anybody; after every step list membership / LastProven / ChunkToProve of every (account,file) may differ only for the submitter of a valid accepted proof; at reward blocks every credited account must be listed on a file it has validly proven. Non-trivial = a rejected invalid submission by a non-listed account on a non-full file followed by a reward block that paid out; distinct = distinct traces.",
		"attestation refresh is modelled from the stored form's complete flags (C14 checks those flags against an independent model)",
		"acceptance of valid proofs is not demanded here (C02 does that); a valid proof may fail without effect")
	c := chain.New(chain.GenesisOpts{NumAccounts: 1, Balance: sdk.NewCoins(sdk.NewInt64Coin("ujkl", 3_000_000_000_000_000)),
		Faucet: sdk.NewCoins(sdk.NewInt64Coin("ujkl", 1_000_000_000_000))})
	defer c.Close()

	// ---- plain regression replays ----
	{ // (1) junk proof by a stranger makes it a listed, paid prover
		w := newC01World(c, 1024, 4, 3)
		honest := w.addAccount(10, true, true)
		stranger := w.addAccount(20, false, true)
		f, r := w.postFile(w.owner, c02Content(3000), 3, 0)
		must2(r)
		s, _ := w.honestSubmission(honest, f)
		sig, msg := w.submit(s)
		if sig == "" {
			sig, msg = w.submit(c01Submission{Class: "garbage", Prover: stranger, Target: f, Merkle: f.Merkle, Owner: f.Owner, Start: f.Start, Item: []byte("x"), HashList: []byte("{}"), ToProve: 0})
		}
		if sig == "" {
			w.fundGauge(1_000_000_000)
			for i := 0; i < 4 && sig == ""; i++ {
				sig, msg = w.nextBlock(time.Hour, 0)
			}
		}
		rec.Regress("C01/rejected-proof-changed-state/prover-added-before-verification", sig != "", msg+" | "+strings.Join(w.trace, " ; "))
	}
	{ // (2) cross-index: proof of leaf 100 answers challenge 1
		// The challenge is steered to 1 through the block-gas seed: first by predicting the chain's generator, and if the
		// prediction does not hold (the way a challenge is drawn is not part of the property) by trying seeds and looking.
		attempt := func(g uint64) (w *c01World, a chain.Account, f *sFile, sig, msg string, steered bool) {
			w = newC01World(c, 1, 50, 40)
			a = w.addAccount(10, true, true)
			var r chain.Result
			f, r = w.postFile(w.owner, c02Content(320), 2, 0)
			must2(r)
			w.nextBlock(6*time.Second, g) // the challenge drawn by the next accepted proof is seeded with this gas value
			s, _ := w.honestSubmission(a, f)
			sig, msg = w.submit(s) // join
			ch, _ := w.challenge(a.Bech, f)
			return w, a, f, sig, msg, sig == "" && ch == 1
		}
		var w *c01World
		var a chain.Account
		var f *sFile
		sig, msg, steered := "", "", false
		if g, ok := findGas(5, buildFile(c02Content(320), 1).pieces(), 1, 0); ok { // worlds start at height 4
			w, a, f, sig, msg, steered = attempt(g)
		}
		for g := uint64(0); !steered && sig == "" && g < 4000; g++ {
			w, a, f, sig, msg, steered = attempt(g)
		}
		if steered {
			item, hl, _ := f.honestProof(100)
			sig, msg = w.submit(c01Submission{Class: "cross-index", Prover: a, Target: f, Merkle: f.Merkle, Owner: f.Owner, Start: f.Start,
				Item: append([]byte{0x00}, item...), HashList: hl, ToProve: 1})
		} else if sig == "" {
			rec.Note("cross-index regression replay not run: no block-gas seed below 4000 steers the challenge of a 320-chunk file to 1")
		}
		trace := ""
		if w != nil {
			trace = strings.Join(w.trace, " ; ")
		}
		rec.Regress("C01/invalid-proof-accepted/cross-index", sig != "", msg+" | "+trace)
	}
	if os_only_regress() {
		return
	}

	search(t, rec, "history", budget(1600, 240000), 40, func(rt *rapid.T) {
		chunk := rapid.SampledFrom([]int64{1, 1, 2, 3, 16, 1024}).Draw(rt, "chunkSize")
		W := rapid.Int64Range(2, 12).Draw(rt, "window")
		C := rapid.Int64Range(2, 8).Draw(rt, "check")
		w := newC01World(c, chunk, W, C)
		w.proofType = rapid.SampledFrom([]int64{0, 0, 0, 1, 2, -1}).Draw(rt, "proofType")
		nH := rapid.IntRange(2, 7).Draw(rt, "holders")
		for i := 0; i < nH; i++ {
			// posting a proof does not require a provider registration: now and then a holder has none
			w.addAccount(10+i, true, rapid.IntRange(0, 5).Draw(rt, "holderRegistered") > 0)
		}
		nD := rapid.IntRange(1, 3).Draw(rt, "dishonest")
		for i := 0; i < nD; i++ {
			w.addAccount(20+i, false, rapid.Bool().Draw(rt, "dishonestRegistered"))
		}
		if rapid.IntRange(0, 3).Draw(rt, "ownerHolds") == 0 { // the owner of the files keeps replicas itself, like any other holder
			w.accounts = append(w.accounts, w.owner)
			w.holders[w.owner.Bech] = true
			if rapid.Bool().Draw(rt, "ownerRegistered") {
				must2(w.initProvider(w.owner, "https://owner.ownerdom.net"))
			}
			w.logf("the owner %s is one of the holders", short(w.owner.Bech))
		}
		busy := rapid.IntRange(0, 2).Draw(rt, "everybodyProvesFirst") == 0
		w.setParams(func(p *storagetypes.Params) {
			p.AttestFormSize = rapid.Int64Range(1, 5).Draw(rt, "formSize")
			p.AttestMinToPass = rapid.Int64Range(1, p.AttestFormSize).Draw(rt, "minToPass")
			if busy && nH >= 4 { // forms of several names that need several signatures, drawn from the whole population
				p.AttestFormSize = rapid.Int64Range(2, int64(nH)-1).Draw(rt, "formSizeBusy")
				p.AttestMinToPass = rapid.Int64Range(2, p.AttestFormSize).Draw(rt, "minToPassBusy")
			}
		})
		w.fundGauge(rapid.Int64Range(1_000_000, 1_000_000_000_000).Draw(rt, "gauge"))
		post := func(rt *rapid.T) {
			if len(w.files) >= 3 {
				return
			}
			nChunks := rapid.OneOf(rapid.Int64Range(1, 12), rapid.Int64Range(101, 320)).Draw(rt, "chunks")
			if chunk >= 16 && nChunks > 12 {
				nChunks = nChunks%12 + 1
			}
			size := nChunks*chunk - rapid.Int64Range(0, chunk-1).Draw(rt, "short")
			content := c02Content(size)
			content[0] = byte(len(w.files) + 1)
			w.postFile(w.owner, content, rapid.Int64Range(1, 7).Draw(rt, "maxProofs"), 0)
		}
		post(rt)
		fail := func(sig, msg string) {
			if sig != "" {
				failf(rt, rec, sig, w.trace, "%s", msg)
			}
		}
		drawFile := func(rt *rapid.T) *sFile { return w.files[rapid.IntRange(0, len(w.files)-1).Draw(rt, "file")] }
		holders := func() []chain.Account {
			var out []chain.Account
			for _, a := range w.accounts {
				if w.holders[a.Bech] {
					out = append(out, a)
				}
			}
			return out
		}
		if busy && len(w.files) > 0 {
			// a busy start: a file with room for everybody, and every holder joins it at once (so that all of them are active
			// providers and attestation forms have the whole population to draw from)
			content := c02Content(3 * chunk)
			content[0] = 99
			if f, r := w.postFile(w.owner, content, int64(nH), 0); r.OK() {
				for _, a := range holders() {
					if s, ok := w.honestSubmission(a, f); ok {
						fail(w.submit(s))
					}
				}
			}
		}
		actions := map[string]func(*rapid.T){
			"post": post,
			"honest": func(rt *rapid.T) {
				if len(w.files) == 0 {
					rt.Skip()
				}
				hs := holders()
				a := hs[rapid.IntRange(0, len(hs)-1).Draw(rt, "holder")]
				f := drawFile(rt)
				if s, ok := w.honestSubmission(a, f); ok {
					fail(w.submit(s))
				}
			},
			"honest2": func(rt *rapid.T) { // same as above, weighted up
				if len(w.files) == 0 {
					rt.Skip()
				}
				hs := holders()
				a := hs[rapid.IntRange(0, len(hs)-1).Draw(rt, "holder")]
				f := drawFile(rt)
				if s, ok := w.honestSubmission(a, f); ok {
					fail(w.submit(s))
				}
			},
			"steer": func(rt *rapid.T) { // next block's gas seed makes the next challenge of a big file 1..3
				if len(w.files) == 0 {
					rt.Skip()
				}
				f := drawFile(rt)
				if f.pieces() < 101 {
					rt.Skip()
				}
				want := rapid.Int64Range(1, 3).Draw(rt, "wantChallenge")
				if want*100 >= f.numChunks() {
					want = 1
				}
				g, ok := findGas(w.f.Height()+1, f.pieces(), want, rapid.Uint64Range(0, 1000).Draw(rt, "gasFrom"))
				if !ok {
					rt.Skip()
				}
				fail(w.nextBlock(6*time.Second, g))
				hs := holders()
				a := hs[rapid.IntRange(0, len(hs)-1).Draw(rt, "holder")]
				if s, ok := w.honestSubmission(a, f); ok {
					fail(w.submit(s))
				}
				// the holder now (usually) faces challenge 1..3 of a file with more than 100*challenge chunks:
				// answer it with a different chunk whose decimal index extends the challenged one
				if ch, listed := w.challenge(a.Bech, f); listed && ch >= 1 && ch*100 < f.numChunks() && rapid.IntRange(0, 9).Draw(rt, "cheatNow") < 7 {
					hi := ch*100 + 99
					if hi > f.numChunks()-1 {
						hi = f.numChunks() - 1
					}
					j := rapid.Int64Range(ch*100, hi).Draw(rt, "crossIndex")
					xy := j - ch*100
					it, h2, _ := f.honestProof(j)
					w.crossIndexTried = true
					fail(w.submit(c01Submission{Class: "cross-index", Prover: a, Target: f, Merkle: f.Merkle, Owner: f.Owner, Start: f.Start,
						Item: append([]byte{byte((xy/10)*16 + xy%10)}, it...), HashList: h2, ToProve: ch}))
				}
			},
			"dishonest": func(rt *rapid.T) {
				if len(w.files) == 0 {
					rt.Skip()
				}
				a := w.accounts[rapid.IntRange(0, len(w.accounts)-1).Draw(rt, "account")] // holders can cheat as well
				f := drawFile(rt)
				ch, _ := w.challenge(a.Bech, f)
				s := c01Submission{Prover: a, Target: f, Merkle: f.Merkle, Owner: f.Owner, Start: f.Start, ToProve: ch}
				item, hl, err := f.honestProof(ch)
				if err != nil {
					rt.Skip()
				}
				s.Item, s.HashList = item, hl
				switch class := rapid.IntRange(0, 9).Draw(rt, "class"); class {
				case 0:
					s.Class = "item-mutated"
					switch rapid.IntRange(0, 3).Draw(rt, "how") {
					case 0:
						s.Item = append([]byte{}, item...)
						s.Item[rapid.IntRange(0, len(item)-1).Draw(rt, "pos")] ^= byte(rapid.IntRange(1, 255).Draw(rt, "xor"))
					case 1:
						s.Item = item[:len(item)-1]
					case 2:
						s.Item = append(append([]byte{}, item...), 0)
					default:
						s.Item = nil
					}
				case 1:
					s.Class = "other-chunk"
					if f.numChunks() < 2 {
						rt.Skip()
					}
					j := rapid.Int64Range(0, f.numChunks()-1).Draw(rt, "otherChunk")
					if j == ch {
						j = (j + 1) % f.numChunks()
					}
					s.Item, s.HashList, _ = f.honestProof(j)
				case 2, 3:
					s.Class = "cross-index"
					// candidates j = ch*100 + xy with j < numChunks; item = byte(0xXY) || chunk j
					if ch < 1 || ch*100 >= f.numChunks() {
						rt.Skip()
					}
					hi := ch*100 + 99
					if hi > f.numChunks()-1 {
						hi = f.numChunks() - 1
					}
					j := rapid.Int64Range(ch*100, hi).Draw(rt, "crossIndex")
					xy := j - ch*100
					it, h2, _ := f.honestProof(j)
					s.Item = append([]byte{byte((xy/10)*16 + xy%10)}, it...)
					s.HashList = h2
					w.crossIndexTried = true
				case 4:
					s.Class = "hashlist-mutated"
					s.HashList = mutateProof(rt, hl)
				case 5:
					s.Class = "garbage"
					s.HashList = []byte(rapid.SampledFrom([]string{"", "{}", "null", "[]", `{"hashes":null,"index":0}`, "\x00\x01", `{"hashes":["AA=="],"index":18446744073709551615}`}).Draw(rt, "json"))
				case 6:
					s.Class = "wrong-toprove"
					k := rapid.Int64Range(0, f.numChunks()-1).Draw(rt, "claimedChunk")
					if k == ch {
						k = ch + 1
					}
					s.ToProve = k
					if k < f.numChunks() && rapid.Bool().Draw(rt, "proofOfClaimed") {
						s.Item, s.HashList, _ = f.honestProof(k)
					}
				case 7:
					s.Class = "wrong-file"
					switch rapid.IntRange(0, 3).Draw(rt, "how") {
					case 0:
						s.Start, s.Target = f.Start+1, nil
					case 1:
						if a.Bech == f.Owner { // the submitter IS the owner: naming itself would address the real file
							s.Start, s.Target = f.Start+1, nil
						} else {
							s.Owner, s.Target = a.Bech, nil
						}
					case 2:
						m := append([]byte{}, f.Merkle...)
						m[0] ^= 1
						s.Merkle, s.Target = m, nil
					default:
						if len(w.files) >= 2 {
							g := w.files[(rapid.IntRange(0, len(w.files)-1).Draw(rt, "other"))]
							if g != f {
								s.Merkle, s.Owner, s.Start, s.Target = g.Merkle, g.Owner, g.Start, g
								s.ToProve, _ = w.challenge(a.Bech, g)
							} else {
								s.Start, s.Target = f.Start+7, nil
							}
						} else {
							s.Start, s.Target = f.Start-1, nil
						}
					}
				case 8:
					s.Class = "full-file"
					// honest-quality proof; only invalid if the file is full and the account is not listed (the reference decides)
				default:
					s.Class = "empty-fields"
					s.Item, s.HashList = nil, nil
				}
				fail(w.submit(s))
			},
			"attestRequest": func(rt *rapid.T) {
				if len(w.files) == 0 {
					rt.Skip()
				}
				fail(w.requestAttest(w.accounts[rapid.IntRange(0, len(w.accounts)-1).Draw(rt, "requester")], drawFile(rt)))
			},
			"attest": func(rt *rapid.T) {
				if len(w.files) == 0 {
					rt.Skip()
				}
				forms := w.c.App.StorageKeeper.GetAllAttestation(w.f.Ctx)
				signer := w.accounts[rapid.IntRange(0, len(w.accounts)-1).Draw(rt, "signer")]
				prover, f := w.accounts[rapid.IntRange(0, len(w.accounts)-1).Draw(rt, "about")], drawFile(rt)
				if len(forms) > 0 && rapid.IntRange(0, 9).Draw(rt, "openForm") < 8 {
					fm := forms[rapid.IntRange(0, len(forms)-1).Draw(rt, "form")]
					for _, a := range w.accounts {
						if a.Bech == fm.Prover {
							prover = a
						}
					}
					for _, g := range w.files {
						if string(g.Merkle) == string(fm.Merkle) && g.Owner == fm.Owner && g.Start == fm.Start {
							f = g
						}
					}
					if len(fm.Attestations) > 0 && rapid.IntRange(0, 9).Draw(rt, "namedSigner") < 7 {
						nm := fm.Attestations[rapid.IntRange(0, len(fm.Attestations)-1).Draw(rt, "which")].Provider
						for _, a := range w.accounts {
							if a.Bech == nm {
								signer = a
							}
						}
					}
				}
				fail(w.attest(signer, prover, f))
				if rapid.IntRange(0, 2).Draw(rt, "signsAgain") == 0 { // the same account signs once more straight away
					fail(w.attest(signer, prover, f))
				}
			},
			"attestRound": func(rt *rapid.T) { // a listed prover asks for a form; a named provider signs, signs again, then others sign
				if len(w.files) == 0 {
					rt.Skip()
				}
				f := drawFile(rt)
				listed := w.listedProvers(f)
				if len(listed) == 0 {
					rt.Skip()
				}
				var prover chain.Account
				who := listed[rapid.IntRange(0, len(listed)-1).Draw(rt, "prover")]
				for _, a := range w.accounts {
					if a.Bech == who {
						prover = a
					}
				}
				if prover.Bech == "" {
					rt.Skip()
				}
				fail(w.requestAttest(prover, f))
				form, ok := w.c.App.StorageKeeper.GetAttestationForm(w.f.Ctx, prover.Bech, f.Merkle, f.Owner, f.Start)
				if !ok {
					return
				}
				// some of the named providers shut their provider record down before anybody has signed: that does not lower
				// the number of signatures the form needs
				if rapid.IntRange(0, 2).Draw(rt, "judgesLeave") == 0 {
					for _, at := range form.Attestations {
						if at.Provider != prover.Bech && rapid.IntRange(0, 3).Draw(rt, "leaves") > 0 {
							r := w.f.Exec(newMsgShutdownProvider(at.Provider))
							w.logf("named provider %s shuts down -> %s", short(at.Provider), r)
							if r.OK() {
								w.classes["named-provider-shut-down-before-signing"]++
							}
						}
					}
				}
				for i, at := range form.Attestations {
					for _, a := range w.accounts {
						if a.Bech != at.Provider || !rapid.Bool().Draw(rt, "signs") {
							continue
						}
						fail(w.attest(a, prover, f))
						if i == 0 || rapid.IntRange(0, 3).Draw(rt, "again") == 0 {
							fail(w.attest(a, prover, f))
						}
					}
				}
			},
			// a restart from an exported genesis: proof records are not part of the storage genesis (a known C19 finding), so
			// afterwards nobody has proven anything "recently"; what the property demands is unchanged - nobody keeps prover
			// status or gets paid except through a valid proof (or attestation quorum) of its own
			"restart": func(rt *rapid.T) {
				if w.restarts >= 1 || len(w.files) == 0 {
					rt.Skip()
				}
				w.restartStorage()
				w.restarts++
			},
			"shutdown": func(rt *rapid.T) { // a provider record goes away (collateral refunded); files it proves keep listing it
				a := w.accounts[rapid.IntRange(0, len(w.accounts)-1).Draw(rt, "who")]
				before := w.state()
				res := w.f.Exec(newMsgShutdownProvider(a.Bech))
				w.logf("shutdown provider %s -> %s", short(a.Bech), res)
				for k, b := range before {
					if a2 := w.state()[k]; a2 != b {
						fail("C01/other-pair-changed", fmt.Sprintf("a provider shutdown changed prover state %s: %+v -> %+v", k[:20], b, a2))
					}
				}
				if res.OK() {
					w.classes["provider-shut-down"]++
				}
			},
			// the owner deletes one of its files (in half of the cases a month later, when the plan that paid for it has run
			// out): from then on the file is unknown - proofs for it change nothing and nobody is paid for it
			"ownerDeletes": func(rt *rapid.T) {
				if len(w.files) < 2 {
					rt.Skip()
				}
				f := drawFile(rt)
				if w.deleted[f.key()] {
					rt.Skip()
				}
				if rapid.Bool().Draw(rt, "afterThePlanRanOut") {
					sig, msg := w.nextBlock(31*24*time.Hour, 0)
					if sig == "panic" {
						sig = "C01/panic"
					}
					fail(sig, msg)
				}
				res := w.f.Exec(&storagetypes.MsgDeleteFile{Creator: f.Owner, Merkle: f.Merkle, Start: f.Start})
				w.logf("owner deletes %s -> %s", f.id(), res)
				if res.OK() {
					w.deleted[f.key()] = true
					for k, p := range w.pairs {
						if p.File.key() == f.key() {
							delete(w.pairs, k)
						}
					}
					w.deletions++
				}
			},
			"advance": func(rt *rapid.T) {
				n := rapid.IntRange(1, 4).Draw(rt, "blocks")
				dt := rapid.SampledFrom([]time.Duration{6 * time.Second, time.Hour}).Draw(rt, "blockTime")
				for i := 0; i < n; i++ {
					sig, msg := w.nextBlock(dt, rapid.Uint64Range(0, 1<<30).Draw(rt, "gas"))
					if sig == "panic" {
						sig = "C01/panic"
					}
					fail(sig, msg)
				}
			},
		}
		actions["attestRound2"], actions["attestRound3"] = actions["attestRound"], actions["attestRound"] // weighted up
		rt.Repeat(actions)
		for k, v := range w.classes {
			rec.Add("submissions:"+k, int64(v))
		}
		if w.crossIndexTried {
			rec.Count("histories-with-cross-index-attempt")
		}
		if w.deletions > 0 {
			rec.Count("histories-in-which-the-owner-deleted-a-file")
		}
		rec.Case(w.paidAfterRejection, ev.Hash(w.trace...), func() interface{} { return w.trace })
	})
}
