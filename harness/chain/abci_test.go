package chain

import (
	"fmt"
	"testing"
	"time"

	sdk "github.com/cosmos/cosmos-sdk/types"
	storagetypes "github.com/jackalLabs/canine-chain/v4/x/storage/types"
)

func TestABCISmoke(t *testing.T) {
	c := New(GenesisOpts{NumAccounts: 3, Balance: sdk.NewCoins(sdk.NewInt64Coin(Denom, 1_000_000_000_000)), Faucet: sdk.NewCoins(sdk.NewInt64Coin(Denom, 1_000_000_000))})
	defer c.Close()
	t0 := time.Now()
	for i := 0; i < 20; i++ {
		_, bp := c.Begin(6 * time.Second)
		if bp != nil {
			t.Fatal(bp, bp.Stack)
		}
		txb, err := c.SignTx(Acc(0), 2_000_000, &storagetypes.MsgBuyStorage{Creator: Acc(0).Bech, ForAddress: Acc(0).Bech, DurationDays: 30, Bytes: 3_000_000_000, PaymentDenom: Denom})
		if err != nil {
			t.Fatal(err)
		}
		r := c.Deliver(txb)
		if i < 2 {
			fmt.Println(r.Code, r.Log, r.GasUsed)
		}
		// signed by somebody else than the creator
		txb2, _ := c.SignTx(Acc(1), 2_000_000, &storagetypes.MsgBuyStorage{Creator: Acc(0).Bech, ForAddress: Acc(0).Bech, DurationDays: 30, Bytes: 3_000_000_000, PaymentDenom: Denom})
		r2 := c.Deliver(txb2)
		if i < 1 {
			fmt.Println("foreign signer:", r2.Code, r2.Log)
		}
		_, cm, bp := c.End()
		if bp != nil {
			t.Fatal(bp)
		}
		if i < 2 {
			fmt.Printf("apphash %x\n", cm.Data)
		}
	}
	fmt.Println("20 blocks:", time.Since(t0))
}
