package chain

import (
	"fmt"
	"runtime/debug"
	"time"

	"github.com/cosmos/cosmos-sdk/client/tx"
	sdk "github.com/cosmos/cosmos-sdk/types"
	"github.com/cosmos/cosmos-sdk/types/tx/signing"
	authsigning "github.com/cosmos/cosmos-sdk/x/auth/signing"
	abci "github.com/tendermint/tendermint/abci/types"
	tmproto "github.com/tendermint/tendermint/proto/tendermint/types"

	"github.com/jackalLabs/canine-chain/v4/app"
)

// ABCI mode: the real ABCI surface of the assembled app with signed transactions.

var encCfg = app.MakeEncodingConfig()

// DeliverCtx returns a context over the current deliver state (valid between BeginBlock and Commit,
// and after InitChain).
func (c *Chain) DeliverCtx() sdk.Context {
	hdr := tmproto.Header{ChainID: ChainID, Height: c.Height, Time: c.Time, ProposerAddress: c.ValSet.Validators[0].Address}
	return c.App.BaseApp.NewContext(false, hdr)
}

// BlockPanic is a panic that escaped block processing (the SDK does not recover these).
type BlockPanic struct {
	Phase string
	Value interface{}
	Stack string
}

func (p *BlockPanic) Error() string { return fmt.Sprintf("panic in %s: %v", p.Phase, p.Value) }

// Begin starts the next block dt after the previous one.
func (c *Chain) Begin(dt time.Duration) (res abci.ResponseBeginBlock, bp *BlockPanic) {
	c.Height++
	c.Time = c.Time.Add(dt)
	hdr := tmproto.Header{ChainID: ChainID, Height: c.Height, Time: c.Time, ProposerAddress: c.ValSet.Validators[0].Address,
		ValidatorsHash: c.ValSet.Hash(), NextValidatorsHash: c.ValSet.Hash(), AppHash: c.App.LastCommitID().Hash}
	defer func() {
		if r := recover(); r != nil {
			bp = &BlockPanic{"BeginBlock", r, string(debug.Stack())}
		}
	}()
	defer quiet()()
	res = c.App.BeginBlock(abci.RequestBeginBlock{Header: hdr})
	return
}

// Deliver executes raw tx bytes.
func (c *Chain) Deliver(txBytes []byte) abci.ResponseDeliverTx {
	defer quiet()()
	return c.App.DeliverTx(abci.RequestDeliverTx{Tx: txBytes})
}

// End finishes the block and commits it.
func (c *Chain) End() (end abci.ResponseEndBlock, commit abci.ResponseCommit, bp *BlockPanic) {
	phase := "EndBlock"
	defer func() {
		if r := recover(); r != nil {
			bp = &BlockPanic{phase, r, string(debug.Stack())}
		}
	}()
	defer quiet()()
	end = c.App.EndBlock(abci.RequestEndBlock{Height: c.Height})
	phase = "Commit"
	commit = c.App.Commit()
	return
}

// SignTx builds a SIGN_MODE_DIRECT transaction with the messages, signed by `signer` (which need not be the
// message's creator: C11 uses that), zero fee.
func (c *Chain) SignTx(signer Account, gas uint64, msgs ...sdk.Msg) ([]byte, error) {
	ctx := c.DeliverCtx()
	acc := c.App.AccountKeeper.GetAccount(ctx, signer.Addr)
	if acc == nil {
		return nil, fmt.Errorf("signer %s has no account", signer.Bech)
	}
	return SignTxWith(signer, acc.GetAccountNumber(), acc.GetSequence(), gas, msgs...)
}

// SignTxWith signs with explicit account number and sequence.
func SignTxWith(signer Account, accNum, seq uint64, gas uint64, msgs ...sdk.Msg) ([]byte, error) {
	txCfg := encCfg.TxConfig
	b := txCfg.NewTxBuilder()
	if err := b.SetMsgs(msgs...); err != nil {
		return nil, err
	}
	b.SetGasLimit(gas)
	b.SetFeeAmount(sdk.NewCoins())
	sig := signing.SignatureV2{PubKey: signer.Priv.PubKey(), Sequence: seq,
		Data: &signing.SingleSignatureData{SignMode: signing.SignMode_SIGN_MODE_DIRECT}}
	if err := b.SetSignatures(sig); err != nil {
		return nil, err
	}
	sd := authsigning.SignerData{ChainID: ChainID, AccountNumber: accNum, Sequence: seq}
	s2, err := tx.SignWithPrivKey(signing.SignMode_SIGN_MODE_DIRECT, sd, b, signer.Priv, txCfg, seq)
	if err != nil {
		return nil, err
	}
	if err := b.SetSignatures(s2); err != nil {
		return nil, err
	}
	return txCfg.TxEncoder()(b.GetTx())
}

// SignTxMulti builds a SIGN_MODE_DIRECT transaction that several accounts sign (one per distinct message creator, in the
// order GetSigners gives). seqDelta[i] is added to signer i's real sequence number (0 = correct), corrupt[i] flips a bit
// of signer i's otherwise well-formed signature: the transactions a careless or hostile client sends.
func (c *Chain) SignTxMulti(signers []Account, seqDelta []int64, corrupt []bool, gas uint64, msgs ...sdk.Msg) ([]byte, error) {
	ctx := c.DeliverCtx()
	txCfg := encCfg.TxConfig
	b := txCfg.NewTxBuilder()
	if err := b.SetMsgs(msgs...); err != nil {
		return nil, err
	}
	b.SetGasLimit(gas)
	b.SetFeeAmount(sdk.NewCoins())
	accNums, seqs := make([]uint64, len(signers)), make([]uint64, len(signers))
	empty := make([]signing.SignatureV2, len(signers))
	for i, s := range signers {
		acc := c.App.AccountKeeper.GetAccount(ctx, s.Addr)
		if acc == nil {
			return nil, fmt.Errorf("signer %s has no account", s.Bech)
		}
		accNums[i] = acc.GetAccountNumber()
		q := int64(acc.GetSequence()) + seqDelta[i]
		if q < 0 {
			q = 0
		}
		seqs[i] = uint64(q)
		empty[i] = signing.SignatureV2{PubKey: s.Priv.PubKey(), Sequence: seqs[i],
			Data: &signing.SingleSignatureData{SignMode: signing.SignMode_SIGN_MODE_DIRECT}}
	}
	if err := b.SetSignatures(empty...); err != nil {
		return nil, err
	}
	sigs := make([]signing.SignatureV2, len(signers))
	for i, s := range signers {
		sd := authsigning.SignerData{ChainID: ChainID, AccountNumber: accNums[i], Sequence: seqs[i]}
		s2, err := tx.SignWithPrivKey(signing.SignMode_SIGN_MODE_DIRECT, sd, b, s.Priv, txCfg, seqs[i])
		if err != nil {
			return nil, err
		}
		if corrupt[i] {
			d := s2.Data.(*signing.SingleSignatureData)
			bz := append([]byte{}, d.Signature...)
			bz[len(bz)/2] ^= 0x10
			s2.Data = &signing.SingleSignatureData{SignMode: d.SignMode, Signature: bz}
		}
		sigs[i] = s2
	}
	if err := b.SetSignatures(sigs...); err != nil {
		return nil, err
	}
	return txCfg.TxEncoder()(b.GetTx())
}

// Query runs an ABCI query (gRPC path, proto-encoded request) against the last committed state, the way an RPC
// client would while a block is being executed; panics are reported as errors, nothing else is returned.
func (c *Chain) Query(path string, data []byte) (code uint32, panicked bool) {
	defer func() {
		if r := recover(); r != nil {
			code, panicked = 1, true
		}
	}()
	defer quiet()()
	res := c.App.Query(abci.RequestQuery{Path: path, Data: data})
	return res.Code, false
}

// Check hands raw tx bytes to the mempool check (CheckTx), which works on a state branch of its own.
func (c *Chain) Check(txBytes []byte) uint32 {
	defer func() { _ = recover() }()
	defer quiet()()
	return c.App.CheckTx(abci.RequestCheckTx{Tx: txBytes, Type: abci.CheckTxType_New}).Code
}
