#!/bin/bash
# confirm_quick.sh <seeded-dir>...: the short confirmation used when a full `go test ./...` does not fit the time left: in a scratch
# worktree the demo passes without the change and fails with it, the tree builds with it, and the changed module's own
# packages pass with it (demo removed). Writes <dir>/confirm.log; full_suite.log is written afterwards if the whole suite is run too.
export GOFLAGS=-mod=mod GOPROXY=off GOSUMDB=off GOTOOLCHAIN=local
for d in "$@"; do
  d=$(realpath $d); name=$(basename $d); wt=/tmp/wt/cq_$name
  demo=$(ls $d | grep '_test.go$' | head -1)
  pkg=$(grep -o '\./x/[a-z]*/[a-z]*' $d/notes.md | head -1)
  mod=$(echo $pkg | cut -d/ -f1-3)
  rm -rf $wt; git -C /repo worktree prune; git -C /repo worktree add --detach -q $wt HEAD
  (
    cd $wt
    echo "== $name at $(git rev-parse --short HEAD), demo $demo in $pkg"
    cp $d/$demo $pkg/
    echo "== package with demo, WITHOUT change (expect ok)"
    go test -vet=off -count=1 $pkg 2>&1 | tail -3
    git apply $d/patch.diff && go build ./... && echo "patch applied, build ok"
    echo "== package with demo, WITH change (expect FAIL)"
    go test -vet=off -count=1 $pkg 2>&1 | grep -v '^\s*$' | grep -E "^(FAIL|ok|\s*--- FAIL|panic)|Error:|Messages:" | head -12
    rm -f $pkg/$demo
    echo "== $mod/... with change, without demo"
    go test -vet=off -count=1 $mod/... 2>&1 | grep -v "no test files"
    echo "== (end)"
  ) > $d/confirm.log 2>&1
  git -C /repo worktree remove --force $wt
  echo "$name confirmed-quick"
done
