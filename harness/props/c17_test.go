package props

// C17 — stored-file indexes and prover lists stay mutually consistent.

import (
	"bytes"
	"fmt"
	"sort"
	"strings"
	"testing"
	"time"

	sdk "github.com/cosmos/cosmos-sdk/types"
	"github.com/cosmos/cosmos-sdk/types/query"
	"pgregory.net/rapid"

	"github.com/jackalLabs/canine-chain/v4/x/storage"
	storagetypes "github.com/jackalLabs/canine-chain/v4/x/storage/types"

	"verifharness/chain"
	"verifharness/ev"
)

// c17Invariant checks the property on the current state of a storage world.
func c17Invariant(w *storWorld) (string, string) {
	k := w.c.App.StorageKeeper
	cdc := w.c.App.AppCodec()
	byM := map[string][]byte{}
	for _, f := range k.GetAllFileByMerkle(w.f.Ctx) {
		key := fileKey(f.Merkle, f.Owner, f.Start)
		if _, dup := byM[key]; dup {
			return "C17/duplicate-in-merkle-index", key
		}
		f := f
		byM[key] = cdc.MustMarshal(&f)
	}
	byO := map[string][]byte{}
	for _, f := range k.GetAllFileByOwner(w.f.Ctx) {
		key := fileKey(f.Merkle, f.Owner, f.Start)
		if _, dup := byO[key]; dup {
			return "C17/duplicate-in-owner-index", key
		}
		f := f
		byO[key] = cdc.MustMarshal(&f)
	}
	for key, v := range byM {
		o, ok := byO[key]
		if !ok {
			return "C17/missing-in-owner-index", fmt.Sprintf("file %s is in the by-content listing but not in the by-owner listing", key[:16])
		}
		if !bytes.Equal(v, o) {
			return "C17/index-contents-differ", fmt.Sprintf("file %s differs between the by-content and by-owner listings", key[:16])
		}
	}
	for key := range byO {
		if _, ok := byM[key]; !ok {
			return "C17/missing-in-merkle-index", fmt.Sprintf("file %s is in the by-owner listing but not in the by-content listing", key[:16])
		}
	}
	// the public queries agree with the indexes
	ctx := sdk.WrapSDKContext(w.f.Ctx)
	page := &query.PageRequest{Limit: 10000}
	all, err := k.AllFiles(ctx, &storagetypes.QueryAllFiles{Pagination: page})
	if err != nil || len(all.Files) != len(byM) {
		return "C17/query-AllFiles", fmt.Sprintf("AllFiles returned %d files (err %v), index has %d", len(all.GetFiles()), err, len(byM))
	}
	owners, merkles := map[string]bool{}, map[string][]byte{}
	for _, f := range all.Files {
		owners[f.Owner] = true
		merkles[fmt.Sprintf("%x", f.Merkle)] = f.Merkle
	}
	nO := 0
	for _, o := range sortedStrings(owners) {
		r, err := k.AllFilesByOwner(ctx, &storagetypes.QueryAllFilesByOwner{Owner: o, Pagination: page})
		if err != nil {
			return "C17/query-AllFilesByOwner", err.Error()
		}
		for _, f := range r.Files {
			f := f
			if !bytes.Equal(cdc.MustMarshal(&f), byM[fileKey(f.Merkle, f.Owner, f.Start)]) {
				return "C17/query-AllFilesByOwner", "by-owner query returns a file that differs from the by-content index"
			}
			nO++
		}
	}
	nM := 0
	mk := make([]string, 0, len(merkles))
	for m := range merkles {
		mk = append(mk, m)
	}
	sort.Strings(mk)
	for _, m := range mk {
		r, err := k.AllFilesByMerkle(ctx, &storagetypes.QueryAllFilesByMerkle{Merkle: merkles[m], Pagination: page})
		if err != nil {
			return "C17/query-AllFilesByMerkle", err.Error()
		}
		for _, f := range r.Files {
			f := f
			if !bytes.Equal(cdc.MustMarshal(&f), byO[fileKey(f.Merkle, f.Owner, f.Start)]) {
				return "C17/query-AllFilesByMerkle", "by-merkle query returns a file that differs from the by-owner index"
			}
			nM++
		}
	}
	// FindFile (the by-content route to a file's providers) agrees with the prover lists read through the by-owner index
	for _, m := range mk {
		want := map[string]int{}
		for _, f := range k.GetAllFileByOwner(w.f.Ctx) {
			if fmt.Sprintf("%x", f.Merkle) != m {
				continue
			}
			for _, pk := range f.Proofs {
				if prov, ok := k.GetProviders(w.f.Ctx, strings.SplitN(pk, "/", 2)[0]); ok {
					want[prov.Ip]++
				}
			}
		}
		r, err := k.FindFile(ctx, &storagetypes.QueryFindFile{Merkle: merkles[m]})
		if err != nil {
			return "C17/query-FindFile", err.Error()
		}
		got := map[string]int{}
		for _, ip := range r.ProviderIps {
			got[ip]++
		}
		if len(got) != len(want) {
			return "C17/query-FindFile", fmt.Sprintf("FindFile(%s…) returns %v, the prover lists of those files give %v", m[:8], got, want)
		}
		for ip, n := range want {
			if got[ip] != n {
				return "C17/query-FindFile", fmt.Sprintf("FindFile(%s…) returns %v, the prover lists of those files give %v", m[:8], got, want)
			}
		}
	}
	if nO != len(byM) || nM != len(byM) {
		return "C17/query-counts", fmt.Sprintf("indexes hold %d files; by-owner queries return %d, by-merkle queries %d", len(byM), nO, nM)
	}
	// prover lists
	for _, f := range all.Files {
		seen := map[string]bool{}
		if int64(len(f.Proofs)) > f.MaxProofs {
			return "C17/prover-list-exceeds-limit", fmt.Sprintf("file %x/%s/%d lists %d provers, its replication limit is %d", f.Merkle[:4], short(f.Owner), f.Start, len(f.Proofs), f.MaxProofs)
		}
		seenAcc := map[string]string{}
		for _, pk := range f.Proofs {
			if seen[pk] {
				return "C17/duplicate-prover", fmt.Sprintf("file %x lists %s twice", f.Merkle[:4], short(strings.SplitN(pk, "/", 2)[0]))
			}
			seen[pk] = true
			prover := strings.SplitN(pk, "/", 2)[0]
			// the same prover under two spellings of its address is still the same prover
			if acc, err := sdk.AccAddressFromBech32(prover); err == nil {
				if other, dup := seenAcc[acc.String()]; dup {
					return "C17/duplicate-prover/two-spellings", fmt.Sprintf("file %x/%s/%d lists the account %s twice (as %q… and %q…): one provider holds two of its %d replica slots", f.Merkle[:4], short(f.Owner), f.Start, short(acc.String()), other[:8], prover[:8], f.MaxProofs)
				}
				seenAcc[acc.String()] = prover
			}
			pr, err := k.Proof(ctx, &storagetypes.QueryProof{ProviderAddress: prover, Merkle: f.Merkle, Owner: f.Owner, Start: f.Start})
			if err != nil {
				return "C17/listed-prover-without-proof-record", fmt.Sprintf("file %x/%s/%d lists %s but the Proof query finds nothing (%v)", f.Merkle[:4], short(f.Owner), f.Start, short(prover), err)
			}
			p := pr.Proof
			if p.Prover != prover || !bytes.Equal(p.Merkle, f.Merkle) || p.Owner != f.Owner || p.Start != f.Start {
				return "C17/proof-record-points-elsewhere", fmt.Sprintf("proof record of %s on %x points to %x/%s/%d", short(prover), f.Merkle[:4], p.Merkle, p.Owner, p.Start)
			}
			byKey, found := k.GetProofWithBuiltKey(w.f.Ctx, []byte(pk))
			if !found || byKey.Prover != prover {
				return "C17/proof-key-does-not-resolve", fmt.Sprintf("list entry %q does not resolve to a proof record", pk)
			}
		}
	}
	return "", ""
}

func TestC17(t *testing.T) {
	rec := ev.For("C17")
	rec.Describe("stateful fork-mode histories (rapid state machine) with every file-affecting action: post (also duplicate keys and several owners), delete, valid proofs, junk proofs, attestation and report forms driven to quorum, provider shutdown and re-init, reward blocks that remove provers and drop prover-less files. After every step: the records under the by-content and by-owner indexes are the same set with byte-identical contents; AllFiles / AllFilesByOwner / AllFilesByMerkle agree with them; every prover list is duplicate-free, no longer than MaxProofs, and each entry resolves (Proof query and built key) to a record pointing back to that file. At the end of every history the storage genesis is exported and imported into a fresh store, where both listings must hold exactly the files (byte for byte) listed before. Non-trivial = a reward block or report removed a prover from a file that had >= 2 provers; distinct = distinct traces.",
		"fewer than 10000 files per world (query page limit used)")
	c := chain.New(chain.GenesisOpts{NumAccounts: 3, Balance: sdk.NewCoins(sdk.NewInt64Coin("ujkl", 1_000_000_000_000_000)),
		Faucet: sdk.NewCoins(sdk.NewInt64Coin("ujkl", 1_000_000_000_000))})
	defer c.Close()
	{ // plain regression replay: the same provider under two spellings of its address
		w := newC07World(c, 4, 3)
		o, p := w.owners[0], w.provs[0]
		w.buyStorage(o, o.Bech, 30, 1_000_000_000, "")
		f := buildFile(c02Content(2000), 1024)
		w.post(o, f.Merkle, f.FileSize, 2, 0, f)
		w.prove(p, f)
		item, hl, _ := f.honestProof(0)
		res := w.f.Exec(&storagetypes.MsgPostProof{Creator: strings.ToUpper(p.Bech), Item: item, HashList: hl, Merkle: f.Merkle, Owner: f.Owner, Start: f.Start, ToProve: 0})
		w.logf("proof by the same account spelled in upper case -> %s", res)
		sig, msg := c17Invariant(w.storWorld)
		rec.Regress("C17/duplicate-prover/two-spellings", sig != "", msg+" | "+strings.Join(w.trace, " ; "))
	}
	if os_only_regress() {
		return
	}
	search(t, rec, "history", budget(2000, 400000), 40, func(rt *rapid.T) {
		W := rapid.Int64Range(2, 6).Draw(rt, "window")
		C := rapid.Int64Range(2, 5).Draw(rt, "check")
		w := newC07World(c, W, C)
		w.proofType = rapid.SampledFrom([]int64{0, 0, 0, 1, 2, -1}).Draw(rt, "proofType")
		nProv := rapid.IntRange(2, 5).Draw(rt, "providers")
		for i := 2; i < nProv; i++ {
			p := chain.Acc(10 + i)
			w.provs = append(w.provs, p)
			w.f.Fund(p.Addr, sdk.NewCoins(sdk.NewInt64Coin("ujkl", 5000)))
			must2(w.initProvider(p, fmt.Sprintf("https://q%d.dom%d.org", i, i)))
		}
		if rapid.IntRange(0, 3).Draw(rt, "ownerProves") == 0 { // an owner that keeps replicas of its own (and others') files
			w.provs = append(w.provs, w.owners[0])
			w.logf("owner %s also acts as a prover", short(w.owners[0].Bech))
		}
		w.setParams(func(p *storagetypes.Params) {
			p.AttestFormSize = rapid.Int64Range(1, 2).Draw(rt, "formSize")
			p.AttestMinToPass = rapid.Int64Range(1, p.AttestFormSize).Draw(rt, "minToPass")
		})
		// in half of the worlds the third owner never buys a plan: it can only post files paid once
		planless := rapid.Bool().Draw(rt, "thirdOwnerWithoutPlan")
		for i, o := range w.owners {
			if planless && i == 2 {
				continue
			}
			w.buyStorage(o, o.Bech, 30, 2_000_000_000, "")
		}
		if planless {
			rec.Count("worlds-with-an-owner-that-never-bought-a-plan")
		}
		removedFromShared := false
		fail := func(sig, msg string) {
			if sig != "" {
				failf(rt, rec, sig, w.trace, "%s", msg)
			}
		}
		multi := func() map[string]int {
			out := map[string]int{}
			for _, f := range w.c.App.StorageKeeper.GetAllFileByMerkle(w.f.Ctx) {
				out[fileKey(f.Merkle, f.Owner, f.Start)] = len(f.Proofs)
			}
			return out
		}
		noteRemoval := func(before map[string]int) {
			after := multi()
			for k, n := range before {
				if a, ok := after[k]; ok && n >= 2 && a < n {
					removedFromShared = true
				}
			}
		}
		nFile, secondCopies := 0, 0
		drawFile := func(rt *rapid.T) *sFile {
			if len(w.files) == 0 {
				rt.Skip()
			}
			return w.files[rapid.IntRange(0, len(w.files)-1).Draw(rt, "file")]
		}
		drawProv := func(rt *rapid.T) chain.Account { return w.provs[rapid.IntRange(0, len(w.provs)-1).Draw(rt, "prover")] }
		rt.Repeat(map[string]func(*rapid.T){
			"post": func(rt *rapid.T) {
				if len(w.c.App.StorageKeeper.GetAllFileByMerkle(w.f.Ctx)) >= 5 {
					rt.Skip()
				}
				o := w.owners[rapid.IntRange(0, 2).Draw(rt, "owner")]
				nFile++
				content := c02Content(rapid.Int64Range(1, 3000).Draw(rt, "size"))
				content[0] = byte(nFile % 7) // few distinct contents: the same merkle gets posted by several owners / at several heights
				f := buildFile(content, 1024)
				exp := int64(0)
				if rapid.IntRange(0, 5).Draw(rt, "payOnce") == 0 || (planless && o.Bech == w.owners[2].Bech && rapid.IntRange(0, 3).Draw(rt, "planlessPaysOnce") > 0) {
					exp = w.f.Height() + 30000
				}
				fail(w.post(o, f.Merkle, f.FileSize, rapid.Int64Range(1, 4).Draw(rt, "maxProofs"), exp, f))
			},
			// an owner stores a file it already stores once more, at a later height: a second copy with its own start, its own
			// prover list and its own proof records (the provers at hand will go on to hold both)
			"postAgain": func(rt *rapid.T) {
				if len(w.files) == 0 || len(w.c.App.StorageKeeper.GetAllFileByMerkle(w.f.Ctx)) >= 6 {
					rt.Skip()
				}
				f := drawFile(rt)
				if f.Start == w.f.Height() {
					rt.Skip()
				}
				for _, o := range w.owners {
					if o.Bech == f.Owner {
						g := *f
						fail(w.post(o, g.Merkle, g.FileSize, rapid.Int64Range(1, 4).Draw(rt, "maxProofs"), f.Expires, &g))
						secondCopies++
					}
				}
			},
			"delete": func(rt *rapid.T) {
				if len(w.posted) == 0 {
					rt.Skip()
				}
				ref := w.posted[rapid.IntRange(0, len(w.posted)-1).Draw(rt, "which")]
				signer := w.owners[rapid.IntRange(0, 2).Draw(rt, "signer")]
				if rapid.IntRange(0, 9).Draw(rt, "byOwner") < 6 {
					for _, a := range w.owners {
						if a.Bech == ref.Owner {
							signer = a
						}
					}
				}
				w.delete(signer, ref)
			},
			"prove": func(rt *rapid.T) { w.prove(drawProv(rt), drawFile(rt)) },
			"proveOtherSpelling": func(rt *rapid.T) { // the same account, address spelled in upper case (valid bech32)
				f, p := drawFile(rt), drawProv(rt)
				up := strings.ToUpper(p.Bech)
				ch := int64(0)
				if pr, found := w.c.App.StorageKeeper.GetProof(w.f.Ctx, up, f.Merkle, f.Owner, f.Start); found {
					ch = pr.ChunkToProve
				} else if pr, found := w.c.App.StorageKeeper.GetProof(w.f.Ctx, p.Bech, f.Merkle, f.Owner, f.Start); found {
					ch = pr.ChunkToProve
				}
				item, hl, err := f.honestProof(ch)
				if err != nil {
					rt.Skip()
				}
				res := w.f.Exec(&storagetypes.MsgPostProof{Creator: up, Item: item, HashList: hl, Merkle: f.Merkle, Owner: f.Owner, Start: f.Start, ToProve: ch})
				w.logf("proof by %s spelled in upper case for %s chunk %d -> %s", short(p.Bech), f.id(), ch, res)
			},
			"prove2": func(rt *rapid.T) { w.prove(drawProv(rt), drawFile(rt)) },
			"prove3": func(rt *rapid.T) { w.prove(drawProv(rt), drawFile(rt)) },
			"proveAll": func(rt *rapid.T) {
				f := drawFile(rt)
				for _, p := range w.provs {
					w.prove(p, f)
				}
			},
			"junkProof": func(rt *rapid.T) {
				f := drawFile(rt)
				p := drawProv(rt)
				ok, emsg, _ := w.postProofRaw(p, f.Merkle, f.Owner, f.Start, []byte("junk"), []byte(`{"hashes":[],"index":0}`), rapid.Int64Range(0, 2).Draw(rt, "toProve"))
				w.logf("junk proof by %s for %s -> success=%v %s", short(p.Bech), f.id(), ok, trunc(emsg, 40))
			},
			"attestFlow": func(rt *rapid.T) {
				f := drawFile(rt)
				p := drawProv(rt)
				res := w.f.Exec(newMsgRequestAttestationForm(p.Bech, f.Merkle, f.Owner, f.Start))
				w.logf("request attestation by %s for %s -> %s", short(p.Bech), f.id(), res)
				for _, s := range w.provs {
					if rapid.Bool().Draw(rt, "signs") {
						w.f.Exec(newMsgAttest(s.Bech, p.Bech, f.Merkle, f.Owner, f.Start))
					}
				}
			},
			// signatures that arrive later: an attestation form opened earlier (whose prover may have been dropped, and its slot
			// taken by somebody else, in the meantime) gets further signatures now
			"lateSignatures": func(rt *rapid.T) {
				forms := w.c.App.StorageKeeper.GetAllAttestation(w.f.Ctx)
				if len(forms) == 0 {
					rt.Skip()
				}
				fm := forms[rapid.IntRange(0, len(forms)-1).Draw(rt, "form")]
				for _, s := range w.provs {
					if rapid.IntRange(0, 2).Draw(rt, "signs") > 0 {
						r := w.f.Exec(newMsgAttest(s.Bech, fm.Prover, fm.Merkle, fm.Owner, fm.Start))
						w.logf("late attestation by %s about %s -> %s", short(s.Bech), short(fm.Prover), r)
					}
				}
				w.syncPairs(w.snapshot())
			},
			"requestOnly": func(rt *rapid.T) { // a form is opened and (for now) signed by at most one provider
				f := drawFile(rt)
				p := drawProv(rt)
				res := w.f.Exec(newMsgRequestAttestationForm(p.Bech, f.Merkle, f.Owner, f.Start))
				w.logf("request attestation by %s for %s -> %s (signatures come later)", short(p.Bech), f.id(), res)
				if rapid.Bool().Draw(rt, "oneSignature") {
					s := drawProv(rt)
					w.f.Exec(newMsgAttest(s.Bech, p.Bech, f.Merkle, f.Owner, f.Start))
				}
			},
			"reportFlow": func(rt *rapid.T) {
				f := drawFile(rt)
				p := drawProv(rt)
				before := multi()
				res := w.f.Exec(newMsgRequestReportForm(drawProv(rt).Bech, p.Bech, f.Merkle, f.Owner, f.Start))
				w.logf("request report about %s for %s -> %s", short(p.Bech), f.id(), res)
				for _, s := range w.provs {
					if rapid.IntRange(0, 3).Draw(rt, "signs") > 0 {
						r := w.f.Exec(newMsgReport(s.Bech, p.Bech, f.Merkle, f.Owner, f.Start))
						w.logf("report by %s about %s -> %s", short(s.Bech), short(p.Bech), r)
					}
				}
				noteRemoval(before)
				w.syncPairs(w.snapshot())
			},
			"shutdownReinit": func(rt *rapid.T) {
				p := drawProv(rt)
				r := w.f.Exec(newMsgShutdownProvider(p.Bech))
				w.logf("shutdown %s -> %s", short(p.Bech), r)
				if rapid.Bool().Draw(rt, "reinit") {
					w.initProvider(p, "https://again.dom"+fmt.Sprint(p.Index)+".org")
				}
			},
			"governance": func(rt *rapid.T) { // a parameter change: another proof window / check interval for files posted from now on
				nw, nc := rapid.Int64Range(2, 12).Draw(rt, "newProofWindow"), rapid.Int64Range(2, 6).Draw(rt, "newCheckWindow")
				w.setParams(func(p *storagetypes.Params) { p.ProofWindow, p.CheckWindow = nw, nc })
				w.logf("governance sets ProofWindow=%d CheckWindow=%d", nw, nc)
			},
			"advance": func(rt *rapid.T) {
				n := rapid.IntRange(1, int(W)+2).Draw(rt, "blocks")
				for i := 0; i < n; i++ {
					before := multi()
					sig, msg := w.nextBlock(6*time.Second, rapid.Uint64Range(0, 1000).Draw(rt, "gas"))
					if sig != "" {
						fail("C17/"+sig, msg)
					}
					noteRemoval(before)
					if s, m := c17Invariant(w.storWorld); s != "" {
						fail(s, m)
					}
				}
			},
			"": func(rt *rapid.T) { fail(c17Invariant(w.storWorld)) },
		})
		// the two listings must also agree after a restart from an exported genesis (proof records are not part of the
		// genesis format - a known C19 finding - so only the listings are compared there)
		{
			listing := func(ctx sdk.Context, byOwner bool) map[string]string {
				out := map[string]string{}
				files := c.App.StorageKeeper.GetAllFileByMerkle(ctx)
				if byOwner {
					files = c.App.StorageKeeper.GetAllFileByOwner(ctx)
				}
				for _, f := range files {
					f := f
					out[fileKey(f.Merkle, f.Owner, f.Start)] = string(c.App.AppCodec().MustMarshal(&f))
				}
				return out
			}
			before := listing(w.f.Ctx, false)
			gs := storage.ExportGenesis(w.f.Ctx, c.App.StorageKeeper)
			fresh := c.Fork(w.f.Height(), w.f.Time())
			storage.InitGenesis(fresh.Ctx, c.App.StorageKeeper, *gs)
			m, o := listing(fresh.Ctx, false), listing(fresh.Ctx, true)
			what := ""
			switch {
			case len(m) != len(before) || len(o) != len(before):
				what = fmt.Sprintf("%d files before the export, %d in the by-content and %d in the by-owner listing after the import", len(before), len(m), len(o))
			default:
				for k, v := range before {
					if m[k] != v || o[k] != v {
						what = fmt.Sprintf("file %s differs (or is missing) in a listing after the import", k[:16])
					}
				}
			}
			if what != "" {
				w.logf("export the storage genesis and import it into a fresh store")
				failf(rt, rec, "C17/genesis-roundtrip/listings", w.trace, "%s", what)
			}
			// life goes on after the restart: every listed prover posts its next proof (its proof record did not survive the
			// genesis, so the chain may refuse it); whatever happens, no list may hold a prover twice or exceed its limit
			rw := &storWorld{c: c, f: fresh, files: w.files}
			for _, f := range w.files {
				for _, p := range w.provs {
					rw.honestProve(p, f)
				}
			}
			for _, byOwner := range []bool{false, true} {
				files := c.App.StorageKeeper.GetAllFileByMerkle(fresh.Ctx)
				if byOwner {
					files = c.App.StorageKeeper.GetAllFileByOwner(fresh.Ctx)
				}
				for _, uf := range files {
					seen := map[string]bool{}
					for _, pk := range uf.Proofs {
						a := strings.SplitN(pk, "/", 2)[0]
						if seen[a] {
							w.trace = append(w.trace, "export the storage genesis, import it into a fresh store, every prover posts its next proof")
							failf(rt, rec, "C17/duplicate-prover/after-restart", w.trace, "after a genesis round trip and one more proof per prover, file %x lists %s twice", uf.Merkle[:4], short(a))
						}
						seen[a] = true
					}
					if int64(len(uf.Proofs)) > uf.MaxProofs {
						w.trace = append(w.trace, "export the storage genesis, import it into a fresh store, every prover posts its next proof")
						failf(rt, rec, "C17/prover-list-exceeds-limit/after-restart", w.trace, "after a genesis round trip and one more proof per prover, file %x lists %d provers, limit %d", uf.Merkle[:4], len(uf.Proofs), uf.MaxProofs)
					}
				}
			}
		}
		if secondCopies > 0 {
			rec.Count("histories-with-a-second-copy-of-a-file-by-the-same-owner")
		}
		rec.Case(removedFromShared, ev.Hash(w.trace...), func() interface{} { return w.trace })
	})
}
