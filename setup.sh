#!/bin/sh
# setup_cmd: offline sanity + warm build of the harness test binary.
set -e
cd "$(dirname "$0")"
export GOFLAGS=-mod=mod GOPROXY=off GOSUMDB=off GOTOOLCHAIN=local
go version
mkdir -p .work evidence replays
./check --build
