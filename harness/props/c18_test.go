package props

// C18 — an inbox lists exactly the notifications sent to it, not blocked and not deleted.

import (
	"fmt"
	"sort"
	"strings"
	"testing"
	"time"

	sdk "github.com/cosmos/cosmos-sdk/types"
	"github.com/cosmos/cosmos-sdk/types/query"
	"pgregory.net/rapid"

	notiftypes "github.com/jackalLabs/canine-chain/v4/x/notifications/types"
	rnstypes "github.com/jackalLabs/canine-chain/v4/x/rns/types"

	"verifharness/chain"
	"verifharness/ev"
)

type c18Note struct {
	To, From string
	Time     int64
	Contents string
	Private  string
}

func (n c18Note) id() string { return fmt.Sprintf("%s|%s|%d", n.To, n.From, n.Time) }

type c18World struct {
	c             *chain.Chain
	f             *chain.Fork
	accs          []chain.Account
	extra         []string // further valid recipient addresses (no key: they never sign)
	trace         []string
	inbox         map[string]c18Note // id -> note
	blocked       map[string]bool    // owner|sender
	nameOwner     map[string]string
	blockThenRead bool
	viaName       bool
}

func (w *c18World) logf(format string, a ...interface{}) {
	w.trace = append(w.trace, fmt.Sprintf("t=+%s ", w.f.Time().Sub(chain.GenesisTime))+fmt.Sprintf(format, a...))
}

func (w *c18World) resolve(target string) (string, bool) {
	if a, err := sdk.AccAddressFromBech32(target); err == nil {
		return a.String(), true
	}
	if o, ok := w.nameOwner[strings.ToLower(target)]; ok {
		return o, true
	}
	return "", false
}

func (w *c18World) invariant() (string, string) {
	k := w.c.App.NotificationsKeeper
	ctx := sdk.WrapSDKContext(w.f.Ctx)
	union := map[string]c18Note{}
	for _, addr := range w.recipients() {
		a := struct{ Bech string }{addr}
		r, err := k.AllNotificationsByAddress(ctx, &notiftypes.QueryAllNotificationsByAddress{To: a.Bech, Pagination: &query.PageRequest{Limit: 100000}})
		if err != nil {
			return "C18/query-error", err.Error()
		}
		got := map[string]c18Note{}
		for _, n := range r.Notifications {
			note := c18Note{n.To, n.From, n.Time, n.Contents, string(n.PrivateContents)}
			if _, dup := got[note.id()]; dup {
				return "C18/duplicate-entry", fmt.Sprintf("inbox of %s lists %v twice", short(a.Bech), note)
			}
			got[note.id()] = note
		}
		want := map[string]c18Note{}
		for id, n := range w.inbox {
			if n.To == a.Bech {
				want[id] = n
			}
		}
		for id, n := range got {
			wn, ok := want[id]
			if !ok {
				return "C18/phantom-entry", fmt.Sprintf("inbox of %s lists {to:%s from:%s time:%d contents:%q} which was never sent (or was deleted)", short(a.Bech), short(n.To), short(n.From), n.Time, n.Contents)
			}
			if wn != n {
				return "C18/entry-contents", fmt.Sprintf("inbox entry %v differs from what was sent %v", n, wn)
			}
			union[id] = n
		}
		for id, n := range want {
			if _, ok := got[id]; !ok {
				return "C18/missing-entry", fmt.Sprintf("inbox of %s lacks the notification from %s at %d", short(a.Bech), short(n.From), n.Time)
			}
			// the single-notification query agrees
			q, err := k.Notification(ctx, &notiftypes.QueryNotification{To: n.To, From: n.From, Time: n.Time})
			if err != nil || q.Notification.Contents != n.Contents {
				return "C18/notification-query", fmt.Sprintf("Notification query for %s fails or differs: %v", id, err)
			}
		}
	}
	all, err := k.AllNotifications(ctx, &notiftypes.QueryAllNotifications{Pagination: &query.PageRequest{Limit: 100000}})
	if err != nil {
		return "C18/query-error", err.Error()
	}
	seen := map[string]bool{}
	for _, n := range all.Notifications {
		note := c18Note{n.To, n.From, n.Time, n.Contents, string(n.PrivateContents)}
		if _, ok := w.inbox[note.id()]; !ok || w.inbox[note.id()] != note {
			return "C18/phantom-entry/all-notifications", fmt.Sprintf("AllNotifications lists {to:%s from:%s time:%d contents:%q} which was never sent (or was deleted)", short(n.To), short(n.From), n.Time, n.Contents)
		}
		seen[note.id()] = true
	}
	if len(seen) != len(w.inbox) {
		return "C18/missing-entry/all-notifications", fmt.Sprintf("AllNotifications lists %d entries, %d were sent and not deleted", len(seen), len(w.inbox))
	}
	return "", ""
}

func (w *c18World) create(sender chain.Account, target, contents string, private []byte) (string, string) {
	return w.createAs(sender, sender.Bech, target, contents, private)
}

// createAs sends with the creator's address spelled as given (all upper-case bech32 is a valid spelling of the same account).
func (w *c18World) createAs(sender chain.Account, spelled, target, contents string, private []byte) (string, string) {
	to, resolvable := w.resolve(target)
	res := w.f.Exec(&notiftypes.MsgCreateNotification{Creator: spelled, To: target, Contents: contents, PrivateContents: private})
	w.logf("create by %s to %q contents=%q -> %s", short(sender.Bech), shortTarget(target), contents, res)
	if res.OK() {
		if !resolvable {
			return "C18/sent-to-unresolvable", fmt.Sprintf("notification to %q succeeded although the target resolves to nobody", target)
		}
		if w.blocked[to+"|"+sender.Bech] {
			return "C18/blocked-sender-delivered", fmt.Sprintf("%s is blocked by %s but its notification was accepted", short(sender.Bech), short(to))
		}
		n := c18Note{To: to, From: sender.Bech, Time: w.f.Time().UnixMicro(), Contents: contents, Private: string(private)}
		w.inbox[n.id()] = n // same (recipient, sender, timestamp) replaces: that is the identity the Notification query exposes
		if target != to {
			w.viaName = true
		}
	}
	return "", ""
}

func shortTarget(t string) string {
	if strings.HasPrefix(t, "jkl1") {
		return short(t)
	}
	return t
}

func (w *c18World) delete(signer chain.Account, from string, ts int64) {
	spelled := signer.Bech
	if ts%2 == 1 { // odd time stamps: the recipient spells its own address in upper case (same account)
		spelled = strings.ToUpper(signer.Bech)
	}
	res := w.f.Exec(&notiftypes.MsgDeleteNotification{Creator: spelled, From: from, Time: ts})
	w.logf("delete by %s from=%q time=%d -> %s", short(signer.Bech), shortTarget(from), ts, res)
	if res.OK() {
		delete(w.inbox, fmt.Sprintf("%s|%s|%d", signer.Bech, from, ts))
	}
}

func (w *c18World) block(owner chain.Account, targets []string) {
	w.blockAs(owner, owner.Bech, targets)
}

func (w *c18World) blockAs(owner chain.Account, spelled string, targets []string) {
	res := w.f.Exec(&notiftypes.MsgBlockSenders{Creator: spelled, ToBlock: targets})
	var ts []string
	for _, t := range targets {
		ts = append(ts, shortTarget(t))
	}
	w.logf("block by %s of %v -> %s", short(owner.Bech), ts, res)
	if res.OK() {
		for _, t := range targets {
			if a, ok := w.resolve(t); ok {
				w.blocked[owner.Bech+"|"+a] = true
			}
		}
		w.blockThenRead = true
	}
}

// prefixExtended returns a valid 32-byte address (the length of module-derived and contract
// addresses) whose bech32 string begins with the complete bech32 string of a: the 38 data
// and checksum characters of a are the first 190 bits of the longer address.
func prefixExtended(a chain.Account) string {
	const charset = "qpzry9x8gf2tvdw0s3jn54khce6mua7l"
	body := a.Bech[strings.LastIndex(a.Bech, "1")+1:]
	var bits []byte
	for _, ch := range body {
		v := strings.IndexRune(charset, ch)
		if v < 0 {
			panic("not a bech32 character: " + string(ch))
		}
		for b := 4; b >= 0; b-- {
			bits = append(bits, byte(v>>uint(b))&1)
		}
	}
	for len(bits) < 256 {
		bits = append(bits, 0)
	}
	raw := make([]byte, 32)
	for i, b := range bits[:256] {
		raw[i/8] |= b << uint(7-i%8)
	}
	long := sdk.AccAddress(raw).String()
	if !strings.HasPrefix(long, a.Bech) || long == a.Bech {
		panic(fmt.Sprintf("prefix construction failed: %s vs %s", long, a.Bech))
	}
	if _, err := sdk.AccAddressFromBech32(long); err != nil {
		panic(err)
	}
	return long
}

func newC18World(c *chain.Chain) *c18World {
	w := &c18World{c: c, f: c.Fork(5, chain.GenesisTime.Add(time.Minute)), inbox: map[string]c18Note{}, blocked: map[string]bool{}, nameOwner: map[string]string{}}
	for i := 0; i < 4; i++ {
		w.accs = append(w.accs, chain.Acc(i))
	}
	// recipients nobody holds a key for: a 32-byte address that textually extends acc0's, and a 32-byte module-style address
	w.extra = []string{prefixExtended(w.accs[0]), sdk.AccAddress(bytes32(0xA7)).String()}
	return w
}

func bytes32(b byte) []byte {
	out := make([]byte, 32)
	for i := range out {
		out[i] = b + byte(i)
	}
	return out
}

// recipients are all the addresses whose inbox is read back.
func (w *c18World) recipients() []string {
	var out []string
	for _, a := range w.accs {
		out = append(out, a.Bech)
	}
	return append(out, w.extra...)
}

func (w *c18World) syncNames() {
	w.nameOwner = map[string]string{}
	for _, n := range w.c.App.RnsKeeper.GetAllNames(w.f.Ctx) {
		w.nameOwner[n.Name+"."+n.Tld] = n.Value
	}
}

func TestC18(t *testing.T) {
	rec := ev.For("C18")
	rec.Describe("stateful fork-mode histories (rapid state machine) among 4 accounts and 2 RNS names that are registered and transferred during the history: create (to address / to name / to unknown name, valid and invalid contents, private contents), delete (own entries, somebody else's, non-existent, crafted From strings), block-senders (addresses, names, several at once), with the block time advancing between most sends. Model: inbox per address keyed by (sender, block-time microseconds); block list per (owner, sender). After every step AllNotificationsByAddress(a) must equal the model inbox of a for every account (full records), AllNotifications the union, Notification each entry; a send by a sender blocked at that time must fail. Non-trivial = a successful block-senders message followed by inbox reads; distinct = distinct traces.",
		"a second send with the same (recipient, sender, timestamp) replaces the first (the identity the Notification query exposes)")
	c := chain.New(chain.GenesisOpts{NumAccounts: 4, Balance: sdk.NewCoins(sdk.NewInt64Coin("ujkl", 1_000_000_000_000))})
	defer c.Close()

	{ // plain regression replay: blocking makes a phantom entry appear in the blocker's inbox
		w := newC18World(c)
		w.block(w.accs[0], []string{w.accs[1].Bech})
		sig, msg := w.invariant()
		rec.Regress("C18/phantom-entry/block-entry-listed-as-notification", sig != "", msg+" | "+strings.Join(w.trace, " ; "))
	}
	{ // plain regression replay: the recipient spells its own address in upper case when blocking / deleting
		w := newC18World(c)
		w.blockAs(w.accs[0], strings.ToUpper(w.accs[0].Bech), []string{w.accs[1].Bech})
		sig, msg := w.create(w.accs[1], w.accs[0].Bech, "{}", nil)
		if sig == "" {
			sig, msg = w.invariant()
		}
		rec.Regress("C18/blocked-sender-delivered/recipient-upper-case-spelling", sig != "", msg+" | "+strings.Join(w.trace, " ; "))
	}
	{ // plain regression replay: a blocked sender spells its address in upper case
		w := newC18World(c)
		w.block(w.accs[0], []string{w.accs[1].Bech})
		sig, msg := w.createAs(w.accs[1], strings.ToUpper(w.accs[1].Bech), w.accs[0].Bech, "{}", nil)
		if sig == "" {
			sig, msg = w.invariant()
		}
		rec.Regress("C18/blocked-sender-delivered/upper-case-spelling", sig != "", msg+" | "+strings.Join(w.trace, " ; "))
	}
	if os_only_regress() {
		return
	}
	search(t, rec, "history", budget(2500, 640000), 30, func(rt *rapid.T) {
		w := newC18World(c)
		fail := func(sig, msg string) {
			if sig != "" {
				failf(rt, rec, sig, w.trace, "%s", msg)
			}
		}
		names := []string{"inbox.jkl", "other.ibc"}
		drawAcc := func(rt *rapid.T, l string) chain.Account { return w.accs[rapid.IntRange(0, 3).Draw(rt, l)] }
		drawTarget := func(rt *rapid.T) string {
			switch rapid.IntRange(0, 9).Draw(rt, "targetKind") {
			case 0, 1, 2:
				return names[rapid.IntRange(0, 1).Draw(rt, "name")]
			case 3:
				return rapid.SampledFrom([]string{"nobody.jkl", "", "x", "jkl1notanaddress", "INBOX.jkl"}).Draw(rt, "oddTarget")
			}
			switch rapid.IntRange(0, 7).Draw(rt, "upperCase") {
			case 0:
				return strings.ToUpper(drawAcc(rt, "to").Bech) // another valid spelling of the same account
			case 1:
				return w.extra[rapid.IntRange(0, len(w.extra)-1).Draw(rt, "keyless")] // 32-byte addresses, one textually extending acc0's
			}
			return drawAcc(rt, "to").Bech
		}
		rt.Repeat(map[string]func(*rapid.T){
			"create": func(rt *rapid.T) {
				contents := rapid.SampledFrom([]string{`{}`, `{"msg":"hi"}`, `"text"`, `[1,2]`, `not json`, ``, `{"msg": "x", "n": [1, 2]}`, "{}\n", " {} ", "{\n  \"a\": 1\n}", `{"a":1,"a":2}`, `{"u":"\u00e9"}`, `1e2`, `{"k":"v"}  `}).Draw(rt, "contents")
				var priv []byte
				if rapid.Bool().Draw(rt, "private") {
					priv = []byte{1, 2, 3}
				}
				fail(w.create(drawAcc(rt, "sender"), drawTarget(rt), contents, priv))
			},
			"createOtherSpelling": func(rt *rapid.T) {
				a := drawAcc(rt, "sender")
				fail(w.createAs(a, strings.ToUpper(a.Bech), drawAcc(rt, "to").Bech, `{"u":1}`, nil))
			},
			"create2": func(rt *rapid.T) {
				fail(w.create(drawAcc(rt, "sender"), drawAcc(rt, "to").Bech, `{"n":`+fmt.Sprint(len(w.trace))+`}`, nil))
			},
			"delete": func(rt *rapid.T) {
				signer := drawAcc(rt, "signer")
				if len(w.inbox) > 0 && rapid.IntRange(0, 9).Draw(rt, "existing") < 8 {
					ids := make([]string, 0, len(w.inbox))
					for id := range w.inbox {
						ids = append(ids, id)
					}
					sort.Strings(ids)
					n := w.inbox[ids[rapid.IntRange(0, len(ids)-1).Draw(rt, "which")]]
					if rapid.IntRange(0, 9).Draw(rt, "byRecipient") < 6 {
						for _, a := range w.accs {
							if a.Bech == n.To {
								signer = a
							}
						}
					}
					if rapid.IntRange(0, 4).Draw(rt, "pathLikeFrom") == 0 {
						// the sender field is a free string: path-like spellings that point into somebody else's inbox
						third := drawAcc(rt, "thirdParty")
						from := rapid.SampledFrom([]string{"../" + n.To + "/" + n.From, "../../" + n.To + "/" + n.From, "./../" + n.To + "/" + n.From, n.From + "/../../" + n.To + "/" + n.From}).Draw(rt, "from")
						w.delete(third, from, n.Time)
						return
					}
					w.delete(signer, n.From, n.Time)
					return
				}
				from := rapid.SampledFrom([]string{"", "x/y", drawAcc(rt, "from").Bech, w.accs[0].Bech + "/" + w.accs[1].Bech}).Draw(rt, "from")
				w.delete(signer, from, rapid.Int64Range(0, 3).Draw(rt, "time"))
			},
			"block": func(rt *rapid.T) {
				n := rapid.IntRange(1, 3).Draw(rt, "howMany")
				var ts []string
				for i := 0; i < n; i++ {
					ts = append(ts, drawTarget(rt))
				}
				o := drawAcc(rt, "owner")
				if rapid.IntRange(0, 5).Draw(rt, "upperCaseCreator") == 0 {
					w.blockAs(o, strings.ToUpper(o.Bech), ts) // the recipient spells its own address in upper case
				} else {
					w.block(o, ts)
				}
			},
			"rns": func(rt *rapid.T) {
				nm := names[rapid.IntRange(0, 1).Draw(rt, "name")]
				a := drawAcc(rt, "acc")
				if rapid.Bool().Draw(rt, "transfer") {
					r := w.f.Exec(rnstypes.NewMsgTransfer(a.Bech, nm, drawAcc(rt, "receiver").Bech))
					w.logf("rns transfer %s by %s -> %s", nm, short(a.Bech), r)
				} else {
					r := w.f.Exec(newMsgRegisterName(a.Bech, nm, 1, "{}", false))
					w.logf("rns register %s by %s -> %s", nm, short(a.Bech), r)
				}
				w.syncNames()
			},
			"tick": func(rt *rapid.T) {
				dt := rapid.SampledFrom([]time.Duration{time.Microsecond, 6 * time.Second, time.Hour}).Draw(rt, "dt")
				w.f.SetBlock(w.f.Height()+1, w.f.Time().Add(dt))
			},
			"oddInstant": func(rt *rapid.T) {
				// the next block time whose microsecond count carries a given byte pattern in its low bytes ('/', NUL, 0xFF,
				// newline, quote ...): time stamps end up inside keys and encodings
				pat := rapid.SampledFrom([]int64{0x2F, 0x2F2F, 0x002F, 0x2F00, 0x00, 0xFF, 0xFFFF, 0x0A, 0x22, 0x5C}).Draw(rt, "lowBytes")
				mask := int64(0xFF)
				if pat > 0xFF || pat == 0x002F || pat == 0x2F00 {
					mask = 0xFFFF
				}
				us := w.f.Time().UnixMicro() + 1
				for us&mask != pat&mask {
					us++
				}
				w.f.SetBlock(w.f.Height()+1, time.UnixMicro(us).UTC())
			},
			"": func(rt *rapid.T) { fail(w.invariant()) },
		})
		if w.viaName {
			rec.Count("delivered-via-name")
		}
		rec.Case(w.blockThenRead, ev.Hash(w.trace...), func() interface{} { return w.trace })
	})
}
