package props

// C14 — attestations and reports act only on a quorum of the providers named on the form.

import (
	"fmt"
	"net/url"
	"sort"
	"strings"
	"testing"
	"time"

	sdk "github.com/cosmos/cosmos-sdk/types"
	"pgregory.net/rapid"

	storagetypes "github.com/jackalLabs/canine-chain/v4/x/storage/types"

	"verifharness/chain"
	"verifharness/ev"
)

type c14Form struct {
	Kind   string // "attest" | "report"
	Prover string
	File   *sFile
	Named  []string
	Signed map[string]bool
	Stuck  bool // quorum reached while file/prover were gone: the code errors out and leaves the form; only "no effect" is asserted
}

type c14World struct {
	*storSim
	owner                          chain.Account
	everyone                       []chain.Account
	ip                             map[string]string
	active                         map[string]bool // registered and proving something
	forms                          map[string]*c14Form
	n, m                           int64
	target                         []*sFile
	sawRepeatOrUnnamedBeforeQuorum bool
	sawSpelled                     bool
	replaced, oddSize              int
	quorumWithoutEffect            int
	formsOutOfNowhere              int
	idle                           []chain.Account // registered, never proved anything
	big                            *sFile          // the file every active provider proves (one replica slot left free)
	fired                          int
	rewardWorld                    bool            // short proof and check windows: provers must keep proving, those that stop are dropped
	lapsing                        map[string]bool // provers that have stopped proving
	droppedWithOpenForm            int
}

func c14Key(kind, prover string, f *sFile) string { return kind + "|" + prover + "|" + f.key() }

func domainOf(ip string) string {
	u, err := url.Parse(ip)
	if err != nil {
		return "?"
	}
	parts := strings.Split(u.Hostname(), ".")
	if len(parts) < 2 {
		return ""
	}
	return parts[len(parts)-2] + "." + parts[len(parts)-1]
}

func (w *c14World) lastProven(prover string, f *sFile) (int64, bool) {
	p, found := w.c.App.StorageKeeper.GetProof(w.f.Ctx, prover, f.Merkle, f.Owner, f.Start)
	return p.LastProven, found
}

func (w *c14World) isListed(prover string, f *sFile) bool {
	for _, p := range w.listedProvers(f) {
		if p == prover {
			return true
		}
	}
	return false
}

type c14Snap struct {
	last   map[string]int64
	listed map[string]bool
}

func (w *c14World) snap() c14Snap {
	s := c14Snap{map[string]int64{}, map[string]bool{}}
	for _, f := range w.target {
		for _, a := range w.everyone {
			k := pairKey(a.Bech, f)
			if lp, ok := w.lastProven(a.Bech, f); ok {
				s.last[k] = lp
			}
			s.listed[k] = w.isListed(a.Bech, f)
		}
	}
	return s
}

// storedForm reads the chain's form (named providers and their complete flags).
func (w *c14World) storedForm(kind, prover string, f *sFile) (named []string, complete map[string]bool, found bool) {
	complete = map[string]bool{}
	if kind == "attest" {
		form, ok := w.c.App.StorageKeeper.GetAttestationForm(w.f.Ctx, prover, f.Merkle, f.Owner, f.Start)
		if !ok {
			return nil, nil, false
		}
		for _, a := range form.Attestations {
			named = append(named, a.Provider)
			if a.Complete {
				complete[a.Provider] = true
			}
		}
		return named, complete, true
	}
	form, ok := w.c.App.StorageKeeper.GetReportForm(w.f.Ctx, prover, f.Merkle, f.Owner, f.Start)
	if !ok {
		return nil, nil, false
	}
	for _, a := range form.Attestations {
		named = append(named, a.Provider)
		if a.Complete {
			complete[a.Provider] = true
		}
	}
	return named, complete, true
}

func (w *c14World) request(kind string, signer chain.Account, prover string, f *sFile) (string, string) {
	return w.requestSpelled(kind, signer, prover, f, false)
}

// requestSpelled is request with the prover (the creator, for attestation forms) written in
// upper case: either nothing happens or everything happens as for the canonical spelling.
func (w *c14World) requestSpelled(kind string, signer chain.Account, prover string, f *sFile, upProver bool) (string, string) {
	key := c14Key(kind, prover, f)
	// whether a form is open is read from the chain: a form whose quorum completed on a prover that had already been
	// dropped may or may not be kept by the code (the property says nothing about it), the model follows the chain
	_, _, had := w.storedForm(kind, prover, f)
	if !had {
		delete(w.forms, key)
	}
	before := w.snap()
	var res chain.Result
	var success bool
	var emsg string
	spProver, spCreator := prover, signer.Bech
	if upProver {
		w.sawSpelled = true
		spProver = strings.ToUpper(prover)
		if kind == "attest" {
			spCreator = strings.ToUpper(signer.Bech)
		}
		defer func() { w.logf("(the prover was spelled in upper case in that request)") }()
	}
	if kind == "attest" {
		res = w.f.Exec(newMsgRequestAttestationForm(spCreator, f.Merkle, f.Owner, f.Start))
		if res.OK() {
			var r storagetypes.MsgRequestAttestationFormResponse
			must(res.Decode(&r))
			success, emsg = r.Success, r.Error
		}
	} else {
		res = w.f.Exec(newMsgRequestReportForm(signer.Bech, spProver, f.Merkle, f.Owner, f.Start))
		if res.OK() {
			var r storagetypes.MsgRequestReportFormResponse
			must(res.Decode(&r))
			success, emsg = r.Success, r.Error
		}
	}
	w.logf("request %s form by %s about prover %s on %s -> success=%v %s", kind, short(signer.Bech), short(prover), f.id(), success, trunc(emsg, 70))
	if s, m := w.noEffect(before, "request "+kind+" form"); s != "" {
		return s, m
	}
	if upProver {
		if _, _, strange := w.storedForm(kind, strings.ToUpper(prover), f); strange {
			return "C14/form-under-second-spelling", fmt.Sprintf("a %s form is stored under the upper-case spelling of %s", kind, short(prover))
		}
	}
	named, complete, found := w.storedForm(kind, prover, f)
	if !success {
		if found != had {
			return "C14/failed-request-changed-form", "a failed form request created or removed a form"
		}
		return "", ""
	}
	if had {
		// the property does not say whether a second request replaces an open form; if it does, the replacement starts
		// without signatures (checked below) and the model follows it
		w.replaced++
		delete(w.forms, key)
	}
	if !found {
		return "C14/form-not-stored", "request answered success but no form is stored"
	}
	if int64(len(named)) != w.n {
		w.oddSize++ // the property does not fix the number of names on a form; the quorum clause is judged against the configured minimum whatever the size
	}
	seen := map[string]bool{}
	for _, p := range named {
		if seen[p] {
			return "C14/form-duplicate-provider", fmt.Sprintf("form names %s twice", short(p))
		}
		seen[p] = true
		if p == prover {
			return "C14/form-names-prover", fmt.Sprintf("%s form about %s names the prover itself", kind, short(prover))
		}
		if _, reg := w.c.App.StorageKeeper.GetProviders(w.f.Ctx, p); !reg {
			return "C14/form-names-unregistered", fmt.Sprintf("form names %s which is not a registered provider", short(p))
		}
		if proofs, _ := w.c.App.StorageKeeper.GetAllProofsForProver(w.f.Ctx, p); len(proofs) == 0 {
			return "C14/form-names-idle-provider", fmt.Sprintf("form names %s which holds no proof", short(p))
		}
	}
	if len(complete) != 0 {
		return "C14/fresh-form-has-signatures", "a fresh form already has completed signatures"
	}
	w.forms[key] = &c14Form{Kind: kind, Prover: prover, File: f, Named: named, Signed: map[string]bool{}}
	return "", ""
}

// noEffect asserts that no deadline moved and nobody was removed.
func (w *c14World) noEffect(before c14Snap, what string) (string, string) {
	after := w.snap()
	for k, v := range before.last {
		if after.last[k] != v {
			return "C14/unexpected-refresh", fmt.Sprintf("%s changed LastProven of %s from %d to %d", what, short(strings.SplitN(k, "|", 2)[0]), v, after.last[k])
		}
	}
	for k, v := range before.listed {
		if after.listed[k] != v {
			return "C14/unexpected-removal", fmt.Sprintf("%s changed list membership of %s (%v -> %v)", what, short(strings.SplitN(k, "|", 2)[0]), v, after.listed[k])
		}
	}
	return "", ""
}

// formSig renders the stored form of (kind, prover spelling, file) for before/after comparison.
func (w *c14World) formSig(kind, prover string, f *sFile) string {
	named, complete, found := w.storedForm(kind, prover, f)
	var done []string
	for p := range complete {
		done = append(done, p)
	}
	sort.Strings(done)
	return fmt.Sprintf("%v|%v|%v", found, named, done)
}

func (w *c14World) sign(kind string, signer chain.Account, prover string, f *sFile) (string, string) {
	return w.signSpelled(kind, signer, prover, f, false, false)
}

// signSpelled is sign with the prover and/or the signer written in upper case (valid bech32
// for the same accounts).  The chain may treat such a spelling as a different string (then
// the message must change nothing at all) or as the account it denotes (then the message
// must behave exactly like the canonically spelled one); anything in between is a violation.
func (w *c14World) signSpelled(kind string, signer chain.Account, prover string, f *sFile, upProver, upSigner bool) (string, string) {
	key := c14Key(kind, prover, f)
	form := w.forms[key]
	before := w.snap()
	spProver, spSigner := prover, signer.Bech
	if upProver {
		spProver = strings.ToUpper(prover)
	}
	if upSigner {
		spSigner = strings.ToUpper(signer.Bech)
	}
	formBefore := w.formSig(kind, prover, f)
	var res chain.Result
	if kind == "attest" {
		res = w.f.Exec(newMsgAttest(spSigner, spProver, f.Merkle, f.Owner, f.Start))
	} else {
		res = w.f.Exec(newMsgReport(spSigner, spProver, f.Merkle, f.Owner, f.Start))
	}
	if upProver || upSigner {
		w.sawSpelled = true
		if _, _, strange := w.storedForm(kind, strings.ToUpper(prover), f); strange {
			return "C14/form-under-second-spelling", fmt.Sprintf("a %s form is stored under the upper-case spelling of %s", kind, short(prover))
		}
		after := w.snap()
		same := formBefore == w.formSig(kind, prover, f)
		for k, v := range before.last {
			same = same && after.last[k] == v
		}
		for k, v := range before.listed {
			same = same && after.listed[k] == v
		}
		if same {
			w.logf("%s by %s about %s on %s with upper-case spelling (prover=%v signer=%v) -> %s, nothing changed", kind, short(signer.Bech), short(prover), f.id(), upProver, upSigner, res)
			return "", ""
		}
		w.logf("%s with upper-case spelling (prover=%v signer=%v) changed state: judged like the canonical spelling", kind, upProver, upSigner)
	}
	named := false
	if form != nil {
		for _, p := range form.Named {
			if p == signer.Bech {
				named = true
			}
		}
	}
	w.logf("%s by %s about %s on %s (form open=%v, named=%v, already signed=%v) -> %s", kind, short(signer.Bech), short(prover), f.id(), form != nil && !form.Stuck, named, form != nil && form.Signed[signer.Bech], res)
	open := form != nil && !form.Stuck // Stuck doubles as "consumed": the form has acted (or can no longer act)
	if open && (!named || form.Signed[signer.Bech]) && int64(len(form.Signed)) < w.m {
		w.sawRepeatOrUnnamedBeforeQuorum = true
	}
	// The property is about effects: a deadline is refreshed (attestation) or a prover removed (report) only once at
	// least m distinct providers named on the open form have signed, and only through a signature of a named provider.
	legit := false
	if open && named {
		form.Signed[signer.Bech] = true
		legit = int64(len(form.Signed)) >= w.m
	}
	pk := pairKey(prover, f)
	after := w.snap()
	for k, v := range before.last {
		if k != pk && after.last[k] != v {
			return "C14/unexpected-refresh", fmt.Sprintf("%s by %s about %s changed the deadline of another pair (%s)", kind, short(signer.Bech), short(prover), short(strings.SplitN(k, "|", 2)[0]))
		}
	}
	for k, v := range before.listed {
		if k != pk && after.listed[k] != v {
			return "C14/unexpected-removal", fmt.Sprintf("%s by %s about %s changed the list membership of another pair (%s)", kind, short(signer.Bech), short(prover), short(strings.SplitN(k, "|", 2)[0]))
		}
	}
	refreshed := after.last[pk] != before.last[pk]
	removed := before.listed[pk] != after.listed[pk]
	if refreshed || removed {
		what := fmt.Sprintf("%s by %s (named=%v, form open=%v, distinct named signatures %d, minimum %d)", kind, short(signer.Bech), named, open, func() int {
			if form == nil {
				return 0
			}
			return len(form.Signed)
		}(), w.m)
		if !legit {
			if refreshed && !removed {
				return "C14/unexpected-refresh", fmt.Sprintf("%s changed LastProven of %s from %d to %d", what, short(prover), before.last[pk], after.last[pk])
			}
			return "C14/unexpected-removal", fmt.Sprintf("%s changed list membership of %s (%v -> %v)", what, short(prover), before.listed[pk], after.listed[pk])
		}
		// a legitimate quorum acts in its own way only: an attestation refreshes the deadline to now, a report removes
		if kind == "attest" && (removed || after.last[pk] != w.f.Height()) {
			return "C14/wrong-effect", fmt.Sprintf("%s: an attestation quorum left %s with listed=%v LastProven=%d at height %d", what, short(prover), after.listed[pk], after.last[pk], w.f.Height())
		}
		if kind == "report" && after.listed[pk] {
			return "C14/wrong-effect", fmt.Sprintf("%s: a report quorum changed the deadline of %s instead of removing it", what, short(prover))
		}
		w.fired++
		form.Stuck = true // consumed: whatever the code keeps in its store, further signatures on it must not act again
	} else if legit {
		w.quorumWithoutEffect++ // e.g. the prover had been dropped already, or the code is stricter than the property
	}
	// representation is the code's business: follow it where the property is silent
	if _, _, kept := w.storedForm(kind, prover, f); !kept {
		delete(w.forms, key)
	} else if form == nil {
		w.formsOutOfNowhere++
	}
	return "", ""
}

func newC14World(c *chain.Chain, n, m int64, nProv, nSameDomain, nIdle, nUnreg int, ipB string, nSingleLabel int, rewardWorld bool) *c14World {
	w := &c14World{storSim: newStorSim(c, 5), owner: chain.Acc(0), ip: map[string]string{}, active: map[string]bool{}, forms: map[string]*c14Form{}, n: n, m: m,
		rewardWorld: rewardWorld, lapsing: map[string]bool{}}
	w.setParams(func(p *storagetypes.Params) {
		p.ChunkSize, p.ProofWindow, p.CheckWindow, p.CollateralPrice, p.AttestFormSize, p.AttestMinToPass = 1024, 100000, 1000003, 1000, n, m
		if rewardWorld {
			p.ProofWindow, p.CheckWindow = 4, 3
		}
	})
	w.logf("params AttestFormSize=%d AttestMinToPass=%d; reward blocks within reach (ProofWindow 4, CheckWindow 3): %v", n, m, rewardWorld)
	must2(w.buyStorage(w.owner, w.owner.Bech, 30, 2_000_000_000, ""))
	add := func(i int, ip string, register bool) chain.Account {
		a := chain.Acc(i)
		w.everyone = append(w.everyone, a)
		if register {
			w.f.Fund(a.Addr, sdk.NewCoins(sdk.NewInt64Coin("ujkl", 1000)))
			must2(w.initProvider(a, ip))
			w.ip[a.Bech] = ip
		}
		return a
	}
	// the provers under discussion
	pA := add(10, "https://node.proverdom.com", true)
	pB := add(11, ipB, true)
	var act []chain.Account
	for i := 0; i < nProv; i++ {
		act = append(act, add(20+i, fmt.Sprintf("https://s%d.dom%d.com", i, i), true))
	}
	for i := 0; i < nSameDomain; i++ {
		act = append(act, add(40+i, fmt.Sprintf("http://x%d.proverdom.com", i), true))
	}
	// providers whose host has the prover's second-level label under another TLD (proverdom.net vs proverdom.com): a
	// different domain, so they are ordinary jurors for forms about the prover - and ordinary requesters of report forms
	for i := 0; i < nSingleLabel%2+1; i++ {
		act = append(act, add(47+i, fmt.Sprintf("https://z%d.proverdom.net", i), true))
	}
	for i := 0; i < nSingleLabel; i++ {
		act = append(act, add(45+i, fmt.Sprintf("http://node%d:3333", i), true))
	}
	for i := 0; i < nIdle; i++ {
		w.idle = append(w.idle, add(50+i, fmt.Sprintf("https://idle%d.idledom%d.org", i, i), true))
	}
	for i := 0; i < nUnreg; i++ {
		add(60+i, "", false)
	}
	// target files proven by A and B; a big file every active provider proves (that makes them "active")
	f1, r := w.postFile(w.owner, append([]byte{1}, c02Content(2000)...), 3, 0)
	must2(r)
	f2, r := w.postFile(w.owner, append([]byte{2}, c02Content(900)...), 2, 0)
	must2(r)
	w.target = []*sFile{f1, f2}
	w.prove(pA, f1)
	w.prove(pB, f1)
	w.prove(pA, f2)
	big, r := w.postFile(w.owner, append([]byte{3}, c02Content(100)...), int64(len(act)+1+nUnreg), 0)
	must2(r)
	for _, a := range act {
		w.prove(a, big)
		w.active[a.Bech] = true
	}
	// accounts without a provider record prove as well (posting a proof needs no registration): they hold proofs but
	// are not providers, so no form may name them - and their proofs are nobody else's
	for i := 0; i < nUnreg; i++ {
		w.prove(chain.Acc(60+i), big)
	}
	w.big = big
	return w
}

func TestC14(t *testing.T) {
	rec := ev.For("C14")
	rec.Describe("stateful fork-mode histories (rapid state machine): 0-10 (mostly 6-10) registered providers with distinct domains that each hold a proof (populations smaller than the form size included), 0-2 sharing the prover's domain, the second prover's host drawn from plain, ported, single-label, numeric and fully qualified (trailing-dot) spellings, 0-2 registered but idle, 0-2 unregistered accounts; (AttestFormSize n, AttestMinToPass m) with 0 <= m <= n <= 6; provers request attestation forms, anybody requests report forms, then arbitrary attest/report messages by named, unnamed and repeated signers and the prover itself against open, never-existing and consumed forms, second requests after consumption, height advancing between messages. Model: who really signed each open form (named providers only). Oracle on effects: after every message the LastProven / list membership of every (account,file) is compared with the state before; a change is allowed only for the pair the form is about, only through a signature of a provider named on an open, not yet consumed form, only when the distinct named signers so far (this one included) number at least m, and only in the form\u2019s own way (attestation: deadline = current height; report: removal); after such an effect the form counts as consumed whatever the code keeps in its store. A fresh form must name distinct registered providers that hold a proof, never the prover, and carry no signatures. Whether forms are kept, dropped or replaced, and whether a completed quorum acts at all, is left to the code (counted, not asserted). Non-trivial = a repeated or unnamed signature arrived before quorum; distinct = distinct traces.",
		"if the prover has already been removed when a quorum completes, the code errors out and keeps the form; only 'no effect' is asserted there",
		"in three worlds of four CheckWindow is set out of reach so that reward blocks do not interfere; in the fourth (ProofWindow 4, CheckWindow 3) every listed prover keeps proving except the ones a 'lapse' action has stopped, which reward blocks then drop while forms about them are still open")
	c := chain.New(chain.GenesisOpts{NumAccounts: 1, Balance: sdk.NewCoins(sdk.NewInt64Coin("ujkl", 1_000_000_000_000)),
		Faucet: sdk.NewCoins(sdk.NewInt64Coin("ujkl", 1_000_000_000))})
	defer c.Close()
	pairsSeen := map[string]bool{}
	if os_only_regress() {
		return
	}
	search(t, rec, "history", budget(1200, 320000), 30, func(rt *rapid.T) {
		n := rapid.Int64Range(0, 6).Draw(rt, "formSize")
		m := rapid.Int64Range(0, n).Draw(rt, "minToPass")
		w := newC14World(c, n, m, rapid.OneOf(rapid.IntRange(6, 10), rapid.IntRange(0, 10)).Draw(rt, "providers"), rapid.IntRange(0, 2).Draw(rt, "sameDomain"), rapid.IntRange(0, 2).Draw(rt, "idle"), rapid.IntRange(0, 2).Draw(rt, "unregistered"),
			rapid.SampledFrom([]string{"https://b.otherprover.net:3333", "https://b.otherprover.net:3333", "http://localhost:3333", "http://storage-node", "http://10.0.0.5:3333", "https://s0.dom0.com", "https://b.otherprover.net.", "https://node.fq.otherprover.org.:3333"}).Draw(rt, "proverIP"),
			rapid.IntRange(0, 2).Draw(rt, "singleLabelHosts"), rapid.IntRange(0, 3).Draw(rt, "rewardBlocksWithinReach") == 0)
		fail := func(sig, msg string) {
			if sig != "" {
				failf(rt, rec, sig, w.trace, "%s", msg)
			}
		}
		provers := []chain.Account{chain.Acc(10), chain.Acc(11)}
		drawTarget := func(rt *rapid.T) (chain.Account, *sFile) {
			return provers[rapid.IntRange(0, 1).Draw(rt, "prover")], w.target[rapid.IntRange(0, len(w.target)-1).Draw(rt, "file")]
		}
		drawSigner := func(rt *rapid.T, form *c14Form) chain.Account {
			if form != nil && len(form.Named) > 0 && rapid.IntRange(0, 9).Draw(rt, "namedSigner") < 7 {
				addr := form.Named[rapid.IntRange(0, len(form.Named)-1).Draw(rt, "which")]
				for _, a := range w.everyone {
					if a.Bech == addr {
						return a
					}
				}
			}
			return w.everyone[rapid.IntRange(0, len(w.everyone)-1).Draw(rt, "anySigner")]
		}
		openForm := func(rt *rapid.T, kind string) *c14Form {
			var keys []string
			for k, f := range w.forms {
				if f.Kind == kind {
					keys = append(keys, k)
				}
			}
			sort.Strings(keys)
			if len(keys) == 0 || rapid.IntRange(0, 9).Draw(rt, "openForm") == 0 {
				return nil
			}
			return w.forms[keys[rapid.IntRange(0, len(keys)-1).Draw(rt, "form")]]
		}
		rt.Repeat(map[string]func(*rapid.T){
			"requestAttest": func(rt *rapid.T) {
				p, f := drawTarget(rt)
				signer := p
				if rapid.IntRange(0, 9).Draw(rt, "byOther") == 0 {
					signer = w.everyone[rapid.IntRange(0, len(w.everyone)-1).Draw(rt, "who")]
				}
				fail(w.requestSpelled("attest", signer, signer.Bech, f, rapid.IntRange(0, 7).Draw(rt, "upperProver") == 0))
			},
			"requestReport": func(rt *rapid.T) {
				p, f := drawTarget(rt)
				fail(w.requestSpelled("report", w.everyone[rapid.IntRange(0, len(w.everyone)-1).Draw(rt, "who")], p.Bech, f, rapid.IntRange(0, 7).Draw(rt, "upperProver") == 0))
			},
			"attest": func(rt *rapid.T) {
				form := openForm(rt, "attest")
				if form != nil {
					fail(w.signSpelled("attest", drawSigner(rt, form), form.Prover, form.File, rapid.IntRange(0, 5).Draw(rt, "upperProver") == 0, rapid.IntRange(0, 9).Draw(rt, "upperSigner") == 0))
					return
				}
				p, f := drawTarget(rt)
				fail(w.sign("attest", drawSigner(rt, nil), p.Bech, f))
			},
			"report": func(rt *rapid.T) {
				form := openForm(rt, "report")
				if form != nil {
					fail(w.signSpelled("report", drawSigner(rt, form), form.Prover, form.File, rapid.IntRange(0, 5).Draw(rt, "upperProver") == 0, rapid.IntRange(0, 9).Draw(rt, "upperSigner") == 0))
					return
				}
				p, f := drawTarget(rt)
				fail(w.sign("report", drawSigner(rt, nil), p.Bech, f))
			},
			// a provider authorises a claim address (for reward claims); that confers nothing on forms: the claimer is not
			// the named provider
			// a provider shuts down: its record goes, the proofs it posted stay behind
			"shutdown": func(rt *rapid.T) {
				p := w.everyone[rapid.IntRange(0, len(w.everyone)-1).Draw(rt, "provider")]
				if p.Index == 10 || p.Index == 11 {
					rt.Skip() // the provers under discussion stay registered (forms about them need their record)
				}
				before := w.snap()
				r := w.f.Exec(newMsgShutdownProvider(p.Bech))
				w.logf("provider %s shuts down -> %s", short(p.Bech), r)
				fail(w.noEffect(before, "a provider shutdown"))
			},
			// a prover that was removed (or never joined that file) takes a free slot again with a valid proof
			"rejoin": func(rt *rapid.T) {
				p, f := drawTarget(rt)
				if w.isListed(p.Bech, f) {
					rt.Skip()
				}
				ok := w.prove(p, f)
				w.logf("%s proves %s to take a slot again -> %v", short(p.Bech), f.id(), ok)
			},
			"addClaimer": func(rt *rapid.T) {
				p := w.everyone[rapid.IntRange(0, len(w.everyone)-1).Draw(rt, "provider")]
				cl := w.everyone[rapid.IntRange(0, len(w.everyone)-1).Draw(rt, "claimer")]
				r := w.f.Exec(&storagetypes.MsgAddClaimer{Creator: p.Bech, ClaimAddress: cl.Bech})
				w.logf("%s authorises claimer %s -> %s", short(p.Bech), short(cl.Bech), r)
			},
			"advance": func(rt *rapid.T) {
				for i := rapid.IntRange(1, 3).Draw(rt, "blocks"); i > 0; i-- {
					if w.rewardWorld { // everybody who has not stopped keeps proving, so that reward blocks drop only the lapsed
						for _, k := range w.sortedPairKeys() {
							pr := w.pairs[k]
							if w.lapsing[pr.Prover] {
								continue
							}
							for _, a := range w.everyone {
								if a.Bech == pr.Prover {
									w.prove(a, pr.File)
								}
							}
						}
					}
					sig, msg := w.nextBlock(6*time.Second, 0)
					fail(sig, msg)
				}
				if w.rewardWorld {
					for _, fm := range w.forms {
						if !w.isListed(fm.Prover, fm.File) && !fm.Stuck {
							w.droppedWithOpenForm++
						}
					}
				}
			},
			// a report form collects all signatures but the deciding one, the reported prover then stops proving and is dropped
			// by a reward block, and only then do the remaining judges sign: the completed form has nobody left to remove
			"dropThenQuorum": func(rt *rapid.T) {
				if !w.rewardWorld {
					rt.Skip()
				}
				p, f := drawTarget(rt)
				if !w.isListed(p.Bech, f) || w.lapsing[p.Bech] {
					rt.Skip()
				}
				key := c14Key("report", p.Bech, f)
				if w.forms[key] == nil {
					fail(w.request("report", w.everyone[rapid.IntRange(0, len(w.everyone)-1).Draw(rt, "who")], p.Bech, f))
				}
				form := w.forms[key]
				if form == nil || form.Stuck {
					return
				}
				byBech := map[string]chain.Account{}
				for _, a := range w.everyone {
					byBech[a.Bech] = a
				}
				var rest []string
				for _, nm := range form.Named {
					if !form.Signed[nm] {
						rest = append(rest, nm)
					}
				}
				for len(rest) > 0 && int64(len(form.Signed)) < w.m-1 {
					fail(w.sign("report", byBech[rest[0]], p.Bech, f))
					rest = rest[1:]
				}
				if w.forms[key] != form || form.Stuck {
					return
				}
				w.lapsing[p.Bech] = true
				w.logf("%s stops proving", short(p.Bech))
				for i := 0; i < 12 && w.isListed(p.Bech, f); i++ {
					for _, k := range w.sortedPairKeys() {
						if pr := w.pairs[k]; !w.lapsing[pr.Prover] {
							w.prove(byBech[pr.Prover], pr.File)
						}
					}
					sig, msg := w.nextBlock(6*time.Second, 0)
					fail(sig, msg)
				}
				if !w.isListed(p.Bech, f) {
					w.droppedWithOpenForm++
				}
				for _, nm := range rest {
					if w.forms[key] != form {
						break
					}
					fail(w.sign("report", byBech[nm], p.Bech, f))
				}
				if rapid.Bool().Draw(rt, "resumes") {
					w.lapsing[p.Bech] = false
				}
			},
			// one of the provers under discussion stops proving (or resumes); where reward blocks come round, they drop it
			// from its files while forms about it may still be open - such a form has nobody left to act on
			"lapse": func(rt *rapid.T) {
				if !w.rewardWorld {
					rt.Skip()
				}
				p := provers[rapid.IntRange(0, 1).Draw(rt, "prover")]
				w.lapsing[p.Bech] = !w.lapsing[p.Bech]
				w.logf("%s stops proving: %v", short(p.Bech), w.lapsing[p.Bech])
			},
		})
		// after a restart from an exported genesis nobody holds a proof record any more (they are not part of the genesis);
		// a provider that now takes the free replica slot is the only one holding a proof, so a form about it can name
		// nobody - unless forms are filled from something else than the proofs providers currently hold
		if len(w.idle) > 0 && rapid.Bool().Draw(rt, "restartAtTheEnd") {
			w.restartStorage()
			w.forms = map[string]*c14Form{}
			for _, fm := range w.c.App.StorageKeeper.GetAllReport(w.f.Ctx) {
				w.c.App.StorageKeeper.RemoveReport(w.f.Ctx, fm.Prover, fm.Merkle, fm.Owner, fm.Start)
			}
			for _, fm := range w.c.App.StorageKeeper.GetAllAttestation(w.f.Ctx) {
				w.c.App.StorageKeeper.RemoveAttestation(w.f.Ctx, fm.Prover, fm.Merkle, fm.Owner, fm.Start)
			}
			joiner := w.idle[0]
			if w.prove(joiner, w.big) {
				rec.Count("histories-with-a-restart-and-a-new-prover")
				fail(w.request("report", w.everyone[0], joiner.Bech, w.big))
				fail(w.request("attest", joiner, joiner.Bech, w.big))
			}
		}
		pairsSeen[fmt.Sprintf("%d/%d", n, m)] = true
		rec.Count(fmt.Sprintf("n=%d,m=%d", n, m))
		if w.fired > 0 {
			rec.Count("histories-with-a-quorum")
		}
		if w.quorumWithoutEffect > 0 {
			rec.Count("histories-where-a-completed-quorum-had-no-effect")
		}
		if w.rewardWorld {
			rec.Count("histories-with-reward-blocks-within-reach")
		}
		if w.droppedWithOpenForm > 0 {
			rec.Count("histories-where-a-reward-block-dropped-a-prover-with-an-open-form")
		}
		if w.replaced > 0 {
			rec.Count("histories-where-a-request-replaced-an-open-form")
		}
		if w.oddSize > 0 {
			rec.Count("histories-with-a-form-of-another-size-than-AttestFormSize")
		}
		if w.sawSpelled {
			rec.Count("histories-with-an-upper-case-spelling")
		}
		rec.Case(w.sawRepeatOrUnnamedBeforeQuorum, ev.Hash(w.trace...), func() interface{} { return w.trace })
	})
}
