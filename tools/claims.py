NOT_CLAIMED = {}

claim("C20",
  "property-based test (rapid): generated segment lists vs an independent sha256 reference fold; metamorphic pairs for injectivity; round trip through the real PostFile handler",
  "Random exploration of segment lists (1-8 segments: empty, unicode, very long, digest look-alikes, split/joined neighbours) checks MerklePath/AddToMerkle against a reference fold written from the property text, trailing-slash neutrality, pairwise distinctness under six structural mutations, and that the Path returned by the real filetree PostFile handler equals the address computed from the plain path. Falsification only: passing means no counterexample among the generated cases.",
  "sha256 collision resistance is assumed for the distinctness clause; segments never contain '/' (a '/' is by definition a separator); the reference fold is the specification as read from the property statement and x/filetree/README.md.",
  "DESIGN.md section 4 C20")
