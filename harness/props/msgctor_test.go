package props

// Message constructors of the harness. The generated message structs (their fields are fixed by the protobuf
// definitions) are filled directly instead of going through the modules' NewMsg... helpers: those exist for the CLI,
// nothing in the repository's tests pins their signatures, and the harness should keep compiling when one changes.

import (
	sdk "github.com/cosmos/cosmos-sdk/types"

	fttypes "github.com/jackalLabs/canine-chain/v4/x/filetree/types"
	rnstypes "github.com/jackalLabs/canine-chain/v4/x/rns/types"
	storagetypes "github.com/jackalLabs/canine-chain/v4/x/storage/types"
)

func newMsgRegisterName(creator, name string, years int64, data string, primary bool) *rnstypes.MsgRegisterName {
	return &rnstypes.MsgRegisterName{Creator: creator, Name: name, Years: years, Data: data, SetPrimary: primary}
}

func newMsgList(creator, name string, price sdk.Coin) *rnstypes.MsgList {
	return &rnstypes.MsgList{Creator: creator, Name: name, Price: price}
}

func newMsgCancelBid(creator, name string) *rnstypes.MsgCancelBid {
	return &rnstypes.MsgCancelBid{Creator: creator, Name: name}
}

func newMsgBuy(creator, name string) *rnstypes.MsgBuy {
	return &rnstypes.MsgBuy{Creator: creator, Name: name}
}

func newMsgRequestAttestationForm(creator string, merkle []byte, owner string, start int64) *storagetypes.MsgRequestAttestationForm {
	return &storagetypes.MsgRequestAttestationForm{Creator: creator, Merkle: merkle, Owner: owner, Start: start}
}

func newMsgAttest(creator, prover string, merkle []byte, owner string, start int64) *storagetypes.MsgAttest {
	return &storagetypes.MsgAttest{Creator: creator, Prover: prover, Merkle: merkle, Owner: owner, Start: start}
}

func newMsgRequestReportForm(creator, prover string, merkle []byte, owner string, start int64) *storagetypes.MsgRequestReportForm {
	return &storagetypes.MsgRequestReportForm{Creator: creator, Prover: prover, Merkle: merkle, Owner: owner, Start: start}
}

func newMsgReport(creator, prover string, merkle []byte, owner string, start int64) *storagetypes.MsgReport {
	return &storagetypes.MsgReport{Creator: creator, Prover: prover, Merkle: merkle, Owner: owner, Start: start}
}

func newMsgShutdownProvider(creator string) *storagetypes.MsgShutdownProvider {
	return &storagetypes.MsgShutdownProvider{Creator: creator}
}

func newMsgBuyStorage(creator, forAddress string, duration, bytes int64, paymentDenom string) *storagetypes.MsgBuyStorage {
	return &storagetypes.MsgBuyStorage{Creator: creator, ForAddress: forAddress, DurationDays: duration, Bytes: bytes, PaymentDenom: paymentDenom}
}

func newMsgProvisionFileTree(creator, editors, viewers, trackingNumber string) *fttypes.MsgProvisionFileTree {
	return &fttypes.MsgProvisionFileTree{Creator: creator, Editors: editors, Viewers: viewers, TrackingNumber: trackingNumber}
}
