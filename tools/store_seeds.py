#!/usr/bin/env python3
"""store_seeds.py <out-prefix> <suffix> <base-commit> <json-file>: copy /tmp/wt/<prefix>_<ID>/ to seeded/<ID>-<suffix>/ with meta.json.
The json file maps ID -> [change, needs, detected_by-sig, strengthened-note-or-empty]."""
import json,os,shutil,sys
pre,suffix,base,jf=sys.argv[1:5]
info=json.load(open(jf))
for pid,(change,needs,sig,strengthened) in info.items():
    src=f'/tmp/wt/{pre}_{pid}'; dst=f'/verif/seeded/{pid}-{suffix}'
    os.makedirs(dst,exist_ok=True)
    demos=[]
    for f in os.listdir(src):
        if f.endswith('.log') or f.endswith('.txt'): continue
        shutil.copy(os.path.join(src,f),dst)
        if f.endswith('_test.go'): demos.append(f)
    meta={"property":pid,"origin":"independent sub-agent (property text, scratch worktree, list of earlier ideas not to repeat, hint at clauses not yet attacked)",
     "change":change,"needs":needs,"base_commit":base,"demo":{"file":demos,"how_to_run":"see notes.md"},
     "confirmed":"see full_suite.log (builds; demo passes without / fails with the change; go test ./... shows no new failure)",
     "detected_by":f"KILLED by ./check {pid} quick: {sig}"+(f" (after strengthening: {strengthened})" if strengthened else "")}
    json.dump(meta,open(dst+'/meta.json','w'),indent=1)
    print("stored",dst)
