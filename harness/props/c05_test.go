package props

// C05 — no sequence of valid transactions can make block processing panic.

import (
	"fmt"
	"math"
	"reflect"
	"strings"
	"testing"
	"time"

	sdk "github.com/cosmos/cosmos-sdk/types"
	"pgregory.net/rapid"

	storagetypes "github.com/jackalLabs/canine-chain/v4/x/storage/types"

	"verifharness/chain"
	"verifharness/ev"
)

type c05World struct {
	*storSim
	urls                     []string
	accs                     []chain.Account
	env                      *fillEnv
	rewardWithProverAndGauge bool
	gov                      func(rt *rapid.T) // parameter changes a governance proposal can make (fork part only)
	govChanges               int
}

func (w *c05World) refreshEnv() {
	e := &fillEnv{Height: w.f.Height()}
	for _, a := range w.accs {
		e.Accounts = append(e.Accounts, a.Bech)
	}
	for _, f := range w.c.App.StorageKeeper.GetAllFileByMerkle(w.f.Ctx) {
		e.Merkles = append(e.Merkles, f.Merkle)
		e.Starts = append(e.Starts, f.Start)
	}
	// gauge accounts are ordinary addresses anybody can name (as a referrer, a receiver, a claimer ...) but nobody can sign for
	for i, g := range w.c.App.StorageKeeper.GetAllPaymentGauges(w.f.Ctx) {
		if i < 3 {
			e.Keyless = append(e.Keyless, gaugeAddr(g))
		}
	}
	e.Names = []string{"abcde.jkl", "ab.ibc", "x.jkl"}
	for _, f := range w.c.App.FileTreeKeeper.GetAllFiles(w.f.Ctx) {
		e.Strings = append(e.Strings, f.Address, f.Owner)
	}
	e.Strings = append(e.Strings, hexsha("a"), "jklprice")
	w.env = e
}

// block runs the custom BeginBlockers at the next height.
func (w *c05World) block(dt time.Duration, gas uint64) (string, string) {
	h := w.f.Height() + 1
	if nt := w.f.Time().Add(dt); nt.Before(w.f.Time()) {
		return "C05/harness", "generated block time went backwards" // consensus guarantees monotonic block time
	}
	w.f.SetBlock(h, w.f.Time().Add(dt))
	w.f.SetBlockGas(gas)
	reward := w.isRewardHeight(h)
	if reward {
		hasProver := false
		for _, f := range w.c.App.StorageKeeper.GetAllFileByMerkle(w.f.Ctx) {
			if len(f.Proofs) > 0 {
				hasProver = true
			}
		}
		if hasProver && len(w.c.App.StorageKeeper.GetAllPaymentGauges(w.f.Ctx)) > 0 {
			w.rewardWithProverAndGauge = true
		}
	}
	bb := w.f.BeginCustom(true, true)
	tag := ""
	if reward {
		tag = " (reward height)"
	}
	w.logf("begin block%s +%s", tag, dt)
	if bb.Panic != nil {
		where := "BeginBlock"
		if strings.Contains(bb.Stack, "rewardAllProviders") {
			where = "storage reward distribution"
		} else if strings.Contains(bb.Stack, "pullTokensFromGauges") {
			where = "storage gauge release"
		} else if strings.Contains(bb.Stack, "jklmint") {
			where = "jklmint"
		}
		return "C05/begin-block-panic/" + where, fmt.Sprintf("BeginBlock at height %d panicked: %v", h, bb.Panic)
	}
	return "", ""
}

func newC05World(c *chain.Chain, W, C int64) *c05World {
	w := &c05World{storSim: newStorSim(c, 2), urls: customMsgURLs(c)}
	w.setParams(func(p *storagetypes.Params) { p.ProofWindow, p.CheckWindow, p.CollateralPrice = W, C, 1000 })
	for i := 0; i < 6; i++ {
		w.accs = append(w.accs, chain.Acc(i))
	}
	w.logf("params window=%d check=%d", W, C)
	w.refreshEnv()
	return w
}

// c05Actions is the action set shared by the fork and the abci variant; exec runs one message.
func c05Drive(rt *rapid.T, w *c05World, exec func(sdk.Msg) string, boundary func(rt *rapid.T) (string, string), fail func(string, string)) {
	nFile := 0
	known := map[string]*sFile{}
	rt.Repeat(map[string]func(*rapid.T){
		"random": func(rt *rapid.T) {
			url := w.urls[rapid.IntRange(0, len(w.urls)-1).Draw(rt, "type")]
			if rapid.IntRange(0, 9).Draw(rt, "storageBias") < 5 {
				var st []string
				for _, u := range w.urls {
					if strings.Contains(u, ".storage.") {
						st = append(st, u)
					}
				}
				url = st[rapid.IntRange(0, len(st)-1).Draw(rt, "storageType")]
			}
			m := newMsgOf(w.c, url)
			fillMsg(rt, m, w.env, nil)
			if rapid.IntRange(0, 7).Draw(rt, "upperCaseCreator") == 0 {
				if f := reflect.ValueOf(m).Elem().FieldByName("Creator"); f.IsValid() {
					f.SetString(strings.ToUpper(f.String()))
				}
			}
			w.logf("%s -> %s", msgSummary(m), exec(m))
			w.refreshEnv()
		},
		"buy": func(rt *rapid.T) {
			a := w.accs[rapid.IntRange(0, 5).Draw(rt, "acc")]
			m := &storagetypes.MsgBuyStorage{Creator: a.Bech, ForAddress: a.Bech, PaymentDenom: "ujkl",
				DurationDays: rapid.SampledFrom([]int64{30, 365, 3650}).Draw(rt, "days"),
				Bytes:        rapid.SampledFrom([]int64{1_000_000_000, 5_000_000_000_000, math.MaxInt64 / 4, math.MaxInt64}).Draw(rt, "bytes")}
			// the referrer is any valid address: another account, or an address nobody holds a key for (a gauge account)
			refs := append([]string{"", "", w.accs[rapid.IntRange(0, 5).Draw(rt, "referrer")].Bech}, w.env.Keyless...)
			m.Referral = refs[rapid.IntRange(0, len(refs)-1).Draw(rt, "referral")]
			w.logf("%s -> %s", msgSummary(m), exec(m))
		},
		"initProvider": func(rt *rapid.T) {
			a := w.accs[rapid.IntRange(0, 5).Draw(rt, "acc")]
			m := storagetypes.NewMsgInitProvider(a.Bech, fmt.Sprintf("https://n%d.d%d.com", a.Index, a.Index), rapid.SampledFrom(advInt64).Draw(rt, "space"), "kb")
			w.logf("%s -> %s", msgSummary(m), exec(m))
		},
		"postReal": func(rt *rapid.T) { // real merkle, declared size anything stateless validation accepts
			a := w.accs[rapid.IntRange(0, 5).Draw(rt, "acc")]
			nFile++
			content := c02Content(rapid.Int64Range(1, 3000).Draw(rt, "realSize"))
			content[0] = byte(nFile)
			f := buildFile(content, w.params().ChunkSize)
			declared := f.FileSize
			if rapid.Bool().Draw(rt, "lie") {
				declared = rapid.SampledFrom([]int64{1, 1 << 40, 1 << 61, 1 << 62, math.MaxInt64, math.MaxInt64 / 2, math.MaxInt64 / 3}).Draw(rt, "declaredSize")
			}
			mp := rapid.SampledFrom([]int64{1, 1, 2, 3, 1 << 20, math.MaxInt64}).Draw(rt, "maxProofs")
			exp := int64(0)
			if rapid.IntRange(0, 3).Draw(rt, "payOnce") == 0 {
				// one day .. centuries .. beyond what time.Duration / UnixNano can represent (292 years)
				exp = w.f.Height() + rapid.SampledFrom([]int64{14_401, 100_000, 5_256_000, 525_600_000, 1_540_000_000, 1_600_000_000, 2_100_000_000, 3_000_000_000, 10_000_000_000, math.MaxInt64 / 8}).Draw(rt, "expiresIn")
			}
			m := &storagetypes.MsgPostFile{Creator: a.Bech, Merkle: f.Merkle, FileSize: declared, MaxProofs: mp, Expires: exp, Note: "{}"}
			r := exec(m)
			w.logf("%s -> %s", msgSummary(m), r)
			if r == "ok" {
				f.Owner, f.Start, f.MaxProofs = a.Bech, w.f.Height(), mp
				known[f.key()] = f
			}
			w.refreshEnv()
		},
		// a tiny file with an astronomic replication count, paid once for a day (cheap: size x replicas is what is paid
		// for), taken by one prover that may later lapse: every place that sizes something by MaxProofs is exercised
		"hugeReplication": func(rt *rapid.T) {
			a := w.accs[rapid.IntRange(0, 5).Draw(rt, "acc")]
			nFile++
			f := buildFile([]byte{byte(nFile)}, w.params().ChunkSize)
			mp := rapid.SampledFrom([]int64{1 << 45, 1 << 50, 1 << 55, 1 << 62, math.MaxInt64}).Draw(rt, "replicas")
			m := &storagetypes.MsgPostFile{Creator: a.Bech, Merkle: f.Merkle, FileSize: 1, MaxProofs: mp, Expires: w.f.Height() + 14_401 + rapid.Int64Range(0, 20).Draw(rt, "extra"), Note: "{}"}
			r := exec(m)
			w.logf("%s -> %s", msgSummary(m), r)
			if r == "ok" {
				f.Owner, f.Start, f.MaxProofs = a.Bech, w.f.Height(), mp
				known[f.key()] = f
				p := w.accs[rapid.IntRange(0, 5).Draw(rt, "firstProver")]
				item, hl, _ := f.honestProof(0)
				pm := &storagetypes.MsgPostProof{Creator: p.Bech, Item: item, HashList: hl, Merkle: f.Merkle, Owner: f.Owner, Start: f.Start, ToProve: 0}
				w.logf("PostProof by %s for %s -> %s", short(p.Bech), f.id(), exec(pm))
			}
			w.refreshEnv()
		},
		"prove": func(rt *rapid.T) {
			if len(known) == 0 {
				rt.Skip()
			}
			keys := make([]string, 0, len(known))
			for k := range known {
				keys = append(keys, k)
			}
			sortStrings(keys)
			f := known[keys[rapid.IntRange(0, len(keys)-1).Draw(rt, "file")]]
			a := w.accs[rapid.IntRange(0, 5).Draw(rt, "prover")]
			ch, _ := w.challenge(a.Bech, f)
			item, hl, err := f.honestProof(ch)
			if err != nil {
				item, hl, _ = f.honestProof(0)
			}
			creator := a.Bech
			if rapid.IntRange(0, 4).Draw(rt, "upperCaseCreator") == 0 {
				creator = strings.ToUpper(a.Bech) // a valid spelling of the same account; the signature check works on the decoded address
			}
			m := &storagetypes.MsgPostProof{Creator: creator, Item: item, HashList: hl, Merkle: f.Merkle, Owner: f.Owner, Start: f.Start, ToProve: ch}
			w.logf("PostProof by %s (creator spelled %q…) for %s chunk %d -> %s", short(a.Bech), creator[:6], f.id(), ch, exec(m))
		},
		"governance": func(rt *rapid.T) {
			if w.gov == nil {
				rt.Skip()
			}
			w.gov(rt)
		},
		"boundary": func(rt *rapid.T) { fail(boundary(rt)) },
	})
}

func TestC05(t *testing.T) {
	rec := ev.For("C05")
	rec.Describe("message sequences over all custom message types (enumerated from the interface registry, fields filled by reflection from pools of existing objects and adversarial values: int64 in {0, +-1, +-2^62, MinInt64, MaxInt64, ...}, empty/1-byte/64-byte merkles, odd JSON, price feeds of 0 / negative / 1e-18 / 1e30, extreme coins), plus structured actions (huge plans, real-merkle files with declared sizes up to MaxInt64, real proofs, provider registration), storage messages weighted up; CheckWindow/ProofWindow in [2,5]; after every few messages block boundaries run at consecutive heights (always through reward heights). Fork part: jklmint + storage BeginBlockers with recover(); abci part: fresh app, signed txs, the assembled app's BeginBlock/EndBlock/Commit with recover(). Any panic in block processing is a violation; panics inside message execution are failed transactions. Non-trivial = a reward block ran with >= 1 stored file having >= 1 listed prover and >= 1 live gauge; distinct = distinct traces.",
		"account balances <= 1e15 ujkl (above any realistic supply)",
		"module parameters are the defaults except the two windows and the collateral price (parameter changes are governance, not user input)",
		"falsification only: a green run means no panic was found within the generated sequences")
	c := chain.New(chain.GenesisOpts{NumAccounts: 6, Balance: sdk.NewCoins(sdk.NewInt64Coin("ujkl", 1_000_000_000_000_000), sdk.NewInt64Coin("uatom", 1_000_000_000))})
	defer c.Close()

	// ---- plain regression replay: FileSize 0 with a listed prover -> division by zero at the reward block ----
	{
		w := newC05World(c, 3, 2)
		a, p := w.accs[0], w.accs[1]
		w.buyStorage(a, a.Bech, 30, 1_000_000_000, "")
		w.initProvider(p, "https://n.d.com")
		f := buildFile(c02Content(100), 1024)
		r := w.f.Exec(&storagetypes.MsgPostFile{Creator: a.Bech, Merkle: f.Merkle, FileSize: 0, MaxProofs: 1, Note: "{}"})
		w.logf("post with FileSize 0 -> %s", r)
		sig, msg := "", ""
		if r.OK() {
			f.Owner, f.Start = a.Bech, w.f.Height()
			item, hl, _ := f.honestProof(0)
			ok, _, _ := w.postProofRaw(p, f.Merkle, f.Owner, f.Start, item, hl, 0)
			w.logf("proof -> %v", ok)
			for i := 0; i < 4 && sig == ""; i++ {
				sig, msg = w.block(time.Hour, 0)
			}
		}
		rec.Regress("C05/begin-block-panic/zero-file-size", sig != "", msg+" | "+strings.Join(w.trace, " ; "))
	}
	// ---- plain regression replay: two individually valid files whose sizes add up beyond int64 ----
	{
		w := newC05World(c, 3, 2)
		a, b := w.accs[0], w.accs[2]
		provs := []chain.Account{w.accs[1], w.accs[3]}
		sig, msg := "", ""
		w.initProvider(provs[0], "https://n.d.com")
		w.initProvider(provs[1], "https://m.e.com")
		for i, o := range []chain.Account{a, b} {
			p := provs[i]
			r := w.buyStorage(o, o.Bech, 30, math.MaxInt64, "")
			f := buildFile(append([]byte{byte(i + 1)}, c02Content(100)...), 1024)
			r = w.f.Exec(&storagetypes.MsgPostFile{Creator: o.Bech, Merkle: f.Merkle, FileSize: 1 << 62, MaxProofs: 1, Note: "{}"})
			w.logf("post with declared FileSize 2^62 by %s -> %s", short(o.Bech), r)
			if r.OK() {
				f.Owner, f.Start = o.Bech, w.f.Height()
				item, hl, _ := f.honestProof(0)
				ok, em, _ := w.postProofRaw(p, f.Merkle, f.Owner, f.Start, item, hl, 0)
				w.logf("proof of chunk 0 -> %v %s", ok, em)
			}
		}
		for i := 0; i < 4 && sig == ""; i++ {
			sig, msg = w.block(time.Hour, 0)
		}
		rec.Regress("C05/begin-block-panic/network-size-overflow", sig != "", msg+" | "+strings.Join(w.trace, " ; "))
	}
	if os_only_regress() {
		return
	}

	search(t, rec, "fork", budget(2000, 640000), 30, func(rt *rapid.T) {
		w := newC05World(c, rapid.Int64Range(2, 5).Draw(rt, "window"), rapid.Int64Range(2, 5).Draw(rt, "check"))
		fail := func(sig, msg string) {
			if sig != "" {
				failf(rt, rec, sig, w.trace, "%s", msg)
			}
		}
		exec := func(m sdk.Msg) string {
			r := w.f.Exec(m)
			if r.OK() {
				return "ok"
			}
			return trunc(r.String(), 90)
		}
		boundary := func(rt *rapid.T) (string, string) {
			n := rapid.IntRange(1, 3).Draw(rt, "blocks")
			// sometimes jump (fork mode can) to just before / at / after the expiry of a one-time-payment file,
			// a plan's end or far into the future, then go on block by block
			if rapid.IntRange(0, 5).Draw(rt, "jump") == 0 {
				var targets []int64
				for _, f := range w.c.App.StorageKeeper.GetAllFileByMerkle(w.f.Ctx) {
					if f.Expires > w.f.Height() && f.Expires < math.MaxInt64/2 {
						targets = append(targets, f.Expires)
					}
				}
				targets = append(targets, w.f.Height()+432_000, w.f.Height()+5_256_000)
				th := targets[rapid.IntRange(0, len(targets)-1).Draw(rt, "jumpTarget")] + rapid.Int64Range(-6, 6).Draw(rt, "jumpDelta")
				if th > w.f.Height()+1 {
					// 6 s per block; computed in Unix seconds because a time.Duration cannot hold more than ~292 years
					w.f.SetBlock(th-1, time.Unix(w.f.Time().Unix()+(th-w.f.Height())*6, 0).UTC())
					w.logf("jump to height %d", th-1)
					n += 6
				}
			}
			// always run through the next reward height
			for i := 0; (i < n || !w.isRewardHeight(w.f.Height())) && i < n+12; i++ {
				dt := rapid.SampledFrom([]time.Duration{0, 6 * time.Second, time.Hour, 40 * 24 * time.Hour, 4000 * 24 * time.Hour}).Draw(rt, "dt")
				if sig, msg := w.block(dt, rapid.Uint64Range(0, 1<<40).Draw(rt, "gas")); sig != "" {
					return sig, msg
				}
			}
			return "", ""
		}
		// governance: a parameter-change proposal is a transaction too.  The property quantifies over messages of the custom
		// modules, so only meaningful settings are generated (percentages stay percentages, windows stay above 1): what a
		// chain could plausibly run with, not everything the (very permissive) parameter validators let through.
		w.gov = func(rt *rapid.T) {
			pct := func(label string, room int64) int64 {
				return rapid.OneOf(rapid.SampledFrom([]int64{0, room}), rapid.Int64Range(0, room)).Draw(rt, label)
			}
			pick := func(label string, usual []int64) int64 {
				if rapid.IntRange(0, 2).Draw(rt, label+"-extreme") == 0 {
					return rapid.SampledFrom([]int64{0, 1, 2, 100, 101, 200, 1 << 20, 3_000_000_000_000, 200_000_000_000_000_000, math.MaxInt64 / 100, math.MaxInt64/100 + 1, math.MaxInt64 / 2, math.MaxInt64}).Draw(rt, label+"-value")
				}
				return rapid.SampledFrom(usual).Draw(rt, label)
			}
			if rapid.Bool().Draw(rt, "mintParams") {
				mp := w.c.App.MintKeeper.GetParams(w.f.Ctx)
				mp.TokensPerBlock = pick("tokensPerBlock", []int64{0, 1, 4_200_000, 1_000_000_000_000})
				mp.StakerRatio = pct("stakerRatio", 100)
				mp.DevGrantsRatio = pct("devRatio", 100-mp.StakerRatio)
				mp.StorageProviderRatio = pct("providerRatio", 100-mp.StakerRatio-mp.DevGrantsRatio)
				mp.MintDecrease = pick("mintDecrease", []int64{6, 0, 5_256_000})
				if err := mp.Validate(); err != nil {
					w.logf("governance: mint params %v rejected by the validator: %v", mp, err)
					return
				}
				w.c.App.MintKeeper.SetParams(w.f.Ctx, mp)
				w.logf("governance sets mint params: tokensPerBlock=%d ratios=%d/%d/%d decrease=%d", mp.TokensPerBlock, mp.StakerRatio, mp.DevGrantsRatio, mp.StorageProviderRatio, mp.MintDecrease)
			} else {
				sp := w.params()
				sp.ProofWindow, sp.CheckWindow = pick("proofWindow", []int64{2, 3, 5}), pick("checkWindow", []int64{2, 3, 5})
				sp.ChunkSize, sp.MissesToBurn = pick("chunkSize", []int64{1, 1024}), pick("missesToBurn", []int64{1, 3})
				sp.PolRatio = pct("polRatio", 100)
				sp.ReferralCommission = pct("referralCommission", 100-sp.PolRatio)
				sp.PricePerTbPerMonth, sp.MaxContractAgeInBlocks = pick("pricePerTb", []int64{8, 0}), pick("maxContractAge", []int64{100, 0})
				sp.AttestFormSize, sp.AttestMinToPass = pick("formSize", []int64{5, 0}), pick("minToPass", []int64{3, 0})
				sp.CollateralPrice = pick("collateralPrice", []int64{1000, 2})
				if sp.ProofWindow < 2 || sp.CheckWindow < 2 || sp.ChunkSize < 1 || sp.MissesToBurn < 1 || sp.CollateralPrice < 2 || sp.Validate() != nil {
					w.logf("governance: storage params outside what the parameter validators accept; proposal fails")
					return
				}
				w.c.App.StorageKeeper.SetParams(w.f.Ctx, sp)
				w.logf("governance sets storage params: window=%d check=%d chunk=%d misses=%d pol=%d referral=%d price=%d age=%d form=%d/%d collateral=%d", sp.ProofWindow, sp.CheckWindow, sp.ChunkSize, sp.MissesToBurn, sp.PolRatio, sp.ReferralCommission, sp.PricePerTbPerMonth, sp.MaxContractAgeInBlocks, sp.AttestFormSize, sp.AttestMinToPass, sp.CollateralPrice)
			}
			w.govChanges++
		}
		c05Drive(rt, w, exec, boundary, fail)
		if w.govChanges > 0 {
			rec.Count("histories-with-governance-parameter-changes")
		}
		rec.Case(w.rewardWithProverAndGauge, ev.Hash(w.trace...), func() interface{} { return w.trace })
	})

	search(t, rec, "abci", budget(100, 32000), 25, func(rt *rapid.T) {
		W, C := rapid.Int64Range(2, 5).Draw(rt, "window"), rapid.Int64Range(2, 5).Draw(rt, "check")
		sp := chain.DefaultStorageParams()
		sp.ProofWindow, sp.CheckWindow, sp.CollateralPrice = W, C, 1000
		ac := chain.New(chain.GenesisOpts{NumAccounts: 6, Balance: sdk.NewCoins(sdk.NewInt64Coin("ujkl", 1_000_000_000_000_000), sdk.NewInt64Coin("uatom", 1_000_000_000)), Storage: &sp})
		defer ac.Close()
		w := &c05World{storSim: &storSim{storWorld: &storWorld{c: ac}, pairs: map[string]*simPair{}}, urls: customMsgURLs(ac)}
		for i := 0; i < 6; i++ {
			w.accs = append(w.accs, chain.Acc(i))
		}
		open := false
		var viol [2]string
		begin := func(dt time.Duration) {
			if _, bp := ac.Begin(dt); bp != nil {
				viol = [2]string{"C05/begin-block-panic/abci", fmt.Sprintf("app.BeginBlock at height %d panicked: %v", ac.Height, bp.Value)}
			}
			open = true
			w.f = &chain.Fork{C: ac, Ctx: ac.DeliverCtx()} // queries read the live deliver state
			w.refreshEnv()
		}
		end := func() {
			if _, _, bp := ac.End(); bp != nil {
				viol = [2]string{"C05/end-block-panic/abci", fmt.Sprintf("app.%s at height %d panicked: %v", bp.Phase, ac.Height, bp.Value)}
			}
			open = false
		}
		begin(6 * time.Second)
		fail := func(sig, msg string) {
			if sig != "" {
				failf(rt, rec, sig, w.trace, "%s", msg)
			}
		}
		exec := func(m sdk.Msg) string {
			var signer chain.Account
			found := false
			func() {
				defer func() { _ = recover() }()
				s := m.GetSigners()
				for _, a := range w.accs {
					if len(s) == 1 && a.Addr.Equals(s[0]) {
						signer, found = a, true
					}
				}
			}()
			if !found {
				return "not signable by a known account"
			}
			txb, err := ac.SignTx(signer, 50_000_000, m)
			if err != nil {
				return "sign: " + err.Error()
			}
			r := ac.Deliver(txb)
			w.f = &chain.Fork{C: ac, Ctx: ac.DeliverCtx()}
			if r.Code == 0 {
				return "ok"
			}
			return trunc(fmt.Sprintf("code %d: %s", r.Code, r.Log), 90)
		}
		boundary := func(rt *rapid.T) (string, string) {
			n := rapid.IntRange(1, 3).Draw(rt, "blocks")
			for i := 0; i < n || ac.Height%C != 0; i++ {
				if open {
					end()
				}
				if viol[0] != "" {
					return viol[0], viol[1]
				}
				begin(rapid.SampledFrom([]time.Duration{time.Second, 6 * time.Second, time.Hour, 40 * 24 * time.Hour}).Draw(rt, "dt"))
				w.logf("block %d", ac.Height)
				if viol[0] != "" {
					return viol[0], viol[1]
				}
				if ac.Height%C == 0 {
					for _, f := range ac.App.StorageKeeper.GetAllFileByMerkle(w.f.Ctx) {
						if len(f.Proofs) > 0 && len(ac.App.StorageKeeper.GetAllPaymentGauges(w.f.Ctx)) > 0 {
							w.rewardWithProverAndGauge = true
						}
					}
				}
			}
			return "", ""
		}
		c05Drive(rt, w, exec, boundary, fail)
		rec.Count("abci-histories")
		rec.Case(w.rewardWithProverAndGauge, ev.Hash(append([]string{"abci"}, w.trace...)...), func() interface{} { return w.trace })
	})
}
