package props

import "unicode"

// rangeTables returns range tables covering printable-ish Unicode without '/'.
func rangeTables() []*unicode.RangeTable {
	noSlashASCII := &unicode.RangeTable{R16: []unicode.Range16{{Lo: 0x00, Hi: 0x2e, Stride: 1}, {Lo: 0x30, Hi: 0x7f, Stride: 1}}, LatinOffset: 2}
	return []*unicode.RangeTable{noSlashASCII, unicode.Latin, unicode.Han, unicode.Cyrillic, unicode.So}
}
