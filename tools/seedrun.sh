#!/bin/bash
# seedrun.sh <patch> <ID> [tier]   apply a seeded change to /repo, run one check, undo.
patch=$(realpath "$1"); id=$2; tier=${3:-quick}
cd /verif
if [ -n "$(git -C /repo status --porcelain)" ]; then echo "/repo not clean"; exit 2; fi
cp evidence/$id.json .work/evidence-backup-$id.json 2>/dev/null
git -C /repo apply "$patch" || { echo "patch does not apply to /repo HEAD"; exit 2; }
./check "$id" "$tier"; rc=$?
git -C /repo checkout -q -- . ; git -C /repo clean -qfd
[ -f .work/evidence-backup-$id.json ] && mv .work/evidence-backup-$id.json evidence/$id.json
echo "seedrun: check exit=$rc; /repo restored: $(git -C /repo status --porcelain | wc -l) dirty"
exit $rc
