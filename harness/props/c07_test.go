package props

// C07 — plan space accounting matches the files actually held.

import (
	"encoding/json"
	"fmt"
	wasmvmtypes "github.com/CosmWasm/wasmvm/types"
	"math"
	"math/big"
	"strings"
	"testing"
	"time"

	sdk "github.com/cosmos/cosmos-sdk/types"
	"pgregory.net/rapid"

	storagetypes "github.com/jackalLabs/canine-chain/v4/x/storage/types"

	"verifharness/chain"
	"verifharness/ev"
)

type c07World struct {
	*storSim
	owners      []chain.Account
	provs       []chain.Account
	removedSeen bool // a plan-paid file was deleted or dropped and usage was read afterwards
	repost      bool
	nearPlanEnd bool
	posted      []postedRef
}

type postedRef struct {
	Merkle []byte
	Owner  string
	Start  int64
	File   *sFile
}

func newC07World(c *chain.Chain, W, C int64) *c07World {
	w := &c07World{storSim: newStorSim(c, 5)}
	w.setParams(func(p *storagetypes.Params) {
		p.ChunkSize, p.ProofWindow, p.CheckWindow, p.CollateralPrice = 1024, W, C, 1000
	})
	w.logf("params window=%d check=%d", W, C)
	for i := 0; i < 3; i++ {
		w.owners = append(w.owners, chain.Acc(i))
	}
	for i := 0; i < 2; i++ {
		p := chain.Acc(10 + i)
		w.provs = append(w.provs, p)
		w.f.Fund(p.Addr, sdk.NewCoins(sdk.NewInt64Coin("ujkl", 1000)))
		must2(w.initProvider(p, fmt.Sprintf("https://q%d.dom%d.org", i, i)))
	}
	return w
}

// invariant: for every account with a plan, reported usage == sum of footprints of its live plan-paid files.
func (w *c07World) invariant() (string, string) {
	foot := map[string]*big.Int{}
	for _, uf := range w.c.App.StorageKeeper.GetAllFileByOwner(w.f.Ctx) {
		if uf.Expires > 0 {
			continue // one-time-payment files are not posted against the plan
		}
		if foot[uf.Owner] == nil {
			foot[uf.Owner] = new(big.Int)
		}
		foot[uf.Owner].Add(foot[uf.Owner], new(big.Int).Mul(big.NewInt(uf.FileSize), big.NewInt(uf.MaxProofs)))
	}
	for _, pi := range w.c.App.StorageKeeper.GetAllStoragePaymentInfo(w.f.Ctx) {
		want := foot[pi.Address]
		if want == nil {
			want = new(big.Int)
		}
		if pi.SpaceUsed < 0 {
			return "C07/negative-usage", fmt.Sprintf("plan of %s reports SpaceUsed = %d", short(pi.Address), pi.SpaceUsed)
		}
		if pi.SpaceUsed > pi.SpaceAvailable {
			return "C07/usage-exceeds-plan", fmt.Sprintf("plan of %s: used %d > available %d", short(pi.Address), pi.SpaceUsed, pi.SpaceAvailable)
		}
		if big.NewInt(pi.SpaceUsed).Cmp(want) != 0 {
			return "C07/usage-vs-files", fmt.Sprintf("plan of %s reports %d bytes used; its live plan-paid files have a total footprint of %s", short(pi.Address), pi.SpaceUsed, want)
		}
	}
	for a, v := range foot {
		if _, found := w.c.App.StorageKeeper.GetStoragePaymentInfo(w.f.Ctx, a); !found && v.Sign() != 0 {
			return "C07/plan-paid-file-without-plan", fmt.Sprintf("%s holds plan-paid files (footprint %s) but has no plan", short(a), v)
		}
	}
	return "", ""
}

func (w *c07World) post(owner chain.Account, merkle []byte, size, maxProofs, expires int64, f *sFile) (string, string) {
	pi, hadPlan := w.c.App.StorageKeeper.GetStoragePaymentInfo(w.f.Ctx, owner.Bech)
	_, dup := w.c.App.StorageKeeper.GetFile(w.f.Ctx, merkle, owner.Bech, w.f.Height())
	msg := &storagetypes.MsgPostFile{Creator: owner.Bech, Merkle: merkle, FileSize: size, MaxProofs: maxProofs, Expires: expires, Note: "{}"}
	res := w.f.Exec(msg)
	w.logf("postFile by %s merkle=%x size=%d maxProofs=%d expires=%d (duplicate key=%v) -> %s", short(owner.Bech), merkle[:4], size, maxProofs, expires, dup, res)
	if dup {
		w.repost = true
	}
	if expires <= 0 && res.OK() {
		// a plan-paid post must have had a live plan with enough room
		foot := new(big.Int).Mul(big.NewInt(size), big.NewInt(maxProofs))
		if !hadPlan {
			return "C07/post-without-plan", fmt.Sprintf("%s has no plan, plan-paid post succeeded", short(owner.Bech))
		}
		if pi.End.Before(w.f.Time()) {
			return "C07/post-on-expired-plan", fmt.Sprintf("plan of %s ended %s, post at %s succeeded", short(owner.Bech), pi.End, w.f.Time())
		}
		free := new(big.Int).Sub(big.NewInt(pi.SpaceAvailable), big.NewInt(pi.SpaceUsed))
		if foot.Cmp(free) > 0 {
			return "C07/post-beyond-free-space", fmt.Sprintf("%s had %s bytes free, posted footprint %s", short(owner.Bech), free, foot)
		}
	}
	if res.OK() {
		w.posted = append(w.posted, postedRef{merkle, owner.Bech, w.f.Height(), f})
		if f != nil {
			f.Owner, f.Start, f.MaxProofs, f.Expires = owner.Bech, w.f.Height(), maxProofs, expires
			w.files = append(w.files, f)
		}
	}
	return "", ""
}

func (w *c07World) delete(signer chain.Account, ref postedRef) {
	spelled := signer.Bech
	if ref.Start%3 == 0 { // now and then the owner's address is spelled in upper case (same account, valid bech32)
		spelled = strings.ToUpper(signer.Bech)
	}
	uf, existed := w.c.App.StorageKeeper.GetFile(w.f.Ctx, ref.Merkle, spelled, ref.Start)
	res := w.f.Exec(&storagetypes.MsgDeleteFile{Creator: spelled, Merkle: ref.Merkle, Start: ref.Start})
	w.logf("deleteFile by %s merkle=%x start=%d (own live file=%v) -> %s", short(signer.Bech), ref.Merkle[:4], ref.Start, existed, res)
	if existed && uf.Expires <= 0 && res.OK() {
		w.removedSeen = true
	}
}

func TestC07(t *testing.T) {
	rec := ev.For("C07")
	rec.Describe("stateful fork-mode histories (rapid state machine) by 3 owners and 2 providers: buy / upgrade / re-buy after expiry, plan-paid posts (Expires <= 0) and pay-once posts with sizes x replication across whatever ValidateBasic accepts (boundary values included), re-post of the same merkle in the same block, delete own / somebody else's / unknown files, real proofs, block advance through youth so that prover-less files are dropped by reward blocks, time advance through plan expiry and to within seconds / hours / a day of the end of a plan. After every step, for every plan: SpaceUsed == sum of FileSize*MaxProofs over the owner's live files with Expires <= 0 (read through the by-owner index), 0 <= used <= available; a plan-paid post needs a live plan with room. Non-trivial = a plan-paid file was deleted or dropped and usage was checked afterwards; distinct = distinct traces.",
		"plan-paid means Expires <= 0 (the handler's own branch condition)")
	c := chain.New(chain.GenesisOpts{NumAccounts: 3, Balance: sdk.NewCoins(sdk.NewInt64Coin("ujkl", 1_000_000_000_000_000)),
		Faucet: sdk.NewCoins(sdk.NewInt64Coin("ujkl", 1_000_000_000_000))})
	defer c.Close()

	scenario := func(sig string, run func(w *c07World) (string, string)) {
		w := newC07World(c, 4, 3)
		s, m := run(w)
		rec.Regress(sig, s != "", m+" | "+strings.Join(w.trace, " ; "))
	}
	// (a) delete does not give the footprint back
	scenario("C07/usage-vs-files/delete-does-not-return-footprint", func(w *c07World) (string, string) {
		must2(w.buyStorage(w.owners[0], w.owners[0].Bech, 30, 1_000_000_000, ""))
		f := buildFile(c02Content(1000), 1024)
		if s, m := w.post(w.owners[0], f.Merkle, 1000, 3, 0, f); s != "" {
			return s, m
		}
		if s, m := w.invariant(); s != "" {
			return s, m
		}
		w.delete(w.owners[0], w.posted[0])
		return w.invariant()
	})
	// (b) a prover-less file dropped by the chain does not give the footprint back
	scenario("C07/usage-vs-files/drop-does-not-return-footprint", func(w *c07World) (string, string) {
		must2(w.buyStorage(w.owners[0], w.owners[0].Bech, 30, 1_000_000_000, ""))
		f := buildFile(c02Content(500), 1024)
		if s, m := w.post(w.owners[0], f.Merkle, 500, 2, 0, f); s != "" {
			return s, m
		}
		for i := 0; i < 12; i++ {
			if s, m := w.nextBlock(6*time.Second, 0); s != "" {
				return "C07/" + s, m
			}
			if s, m := w.invariant(); s != "" {
				return s, m
			}
		}
		return "", ""
	})
	// (c) negative size drives usage negative
	scenario("C07/negative-usage/negative-file-size", func(w *c07World) (string, string) {
		must2(w.buyStorage(w.owners[0], w.owners[0].Bech, 30, 1_000_000_000, ""))
		f := buildFile(c02Content(10), 1024)
		if s, m := w.post(w.owners[0], f.Merkle, -5000, 3, 0, nil); s != "" {
			return s, m
		}
		return w.invariant()
	})
	// (d) same (merkle, owner, height) posted twice: one live file, charged twice
	scenario("C07/usage-vs-files/repost-same-block-charged-twice", func(w *c07World) (string, string) {
		must2(w.buyStorage(w.owners[0], w.owners[0].Bech, 30, 1_000_000_000, ""))
		f := buildFile(c02Content(700), 1024)
		if s, m := w.post(w.owners[0], f.Merkle, 700, 2, 0, f); s != "" {
			return s, m
		}
		if s, m := w.post(w.owners[0], f.Merkle, 700, 2, 0, nil); s != "" {
			return s, m
		}
		return w.invariant()
	})
	if os_only_regress() {
		return
	}

	search(t, rec, "history", budget(1500, 400000), 30, func(rt *rapid.T) {
		W := rapid.Int64Range(2, 6).Draw(rt, "window")
		C := rapid.Int64Range(2, 5).Draw(rt, "check")
		w := newC07World(c, W, C)
		w.proofType = rapid.SampledFrom([]int64{0, 0, 0, 1, 2, -1}).Draw(rt, "proofType")
		fail := func(sig, msg string) {
			if sig != "" {
				failf(rt, rec, sig, w.trace, "%s", msg)
			}
		}
		drawOwner := func(rt *rapid.T) chain.Account { return w.owners[rapid.IntRange(0, len(w.owners)-1).Draw(rt, "owner")] }
		// most histories start with a plan for owner 0
		if rapid.IntRange(0, 9).Draw(rt, "initialPlan") < 8 {
			w.buyStorage(w.owners[0], w.owners[0].Bech, 30, rapid.SampledFrom([]int64{1_000_000_000, 2_000_000_000}).Draw(rt, "bytes"), "")
		}
		nFile := 0
		rt.Repeat(map[string]func(*rapid.T){
			"buy": func(rt *rapid.T) {
				o := drawOwner(rt)
				forAddr := o.Bech
				if rapid.IntRange(0, 4).Draw(rt, "forOther") == 0 {
					forAddr = drawOwner(rt).Bech
				}
				bytes := rapid.SampledFrom([]int64{999_999_999, 1_000_000_000, 1_000_000_000, 1_500_000_000, 1_999_999_999, 2_000_000_000, 2_900_000_000, 5_000_000_000}).Draw(rt, "bytes")
				if r := w.buyStorage(o, forAddr, rapid.SampledFrom([]int64{30, 30, 60, 365}).Draw(rt, "days"), bytes, ""); r.OK() {
					// the space purchased is what the plan must offer
					if pi, found := w.c.App.StorageKeeper.GetStoragePaymentInfo(w.f.Ctx, forAddr); !found || pi.SpaceAvailable != bytes {
						fail("C07/plan-size", fmt.Sprintf("bought %d bytes for %s, plan offers %d (found=%v)", bytes, short(forAddr), pi.SpaceAvailable, found))
					}
				}
			},
			"post": func(rt *rapid.T) {
				o := drawOwner(rt)
				size := rapid.OneOf(rapid.Int64Range(1, 5000), rapid.SampledFrom([]int64{1, 1_000_000, 300_000_000, 400_000_000, 500_000_000, 999_999_999, 1_000_000_000, 1_000_000_001})).Draw(rt, "size")
				mp := rapid.Int64Range(1, 4).Draw(rt, "maxProofs")
				exp := int64(0)
				if rapid.IntRange(0, 4).Draw(rt, "payOnce") == 0 {
					exp = w.f.Height() + rapid.SampledFrom([]int64{20_000, 100_000}).Draw(rt, "expiresIn")
				} else if rapid.IntRange(0, 5).Draw(rt, "staleExpiry") == 0 {
					exp = rapid.SampledFrom([]int64{1, w.f.Height() - 1, w.f.Height()}).Draw(rt, "expiryInThePast") // a height left over in the field
				}
				nFile++
				var f *sFile
				content := c02Content(minI64(size, 4096))
				content[0] = byte(nFile)
				f = buildFile(content, 1024)
				if size > 4096 {
					// declared size larger than the data we bother to hold: nobody will prove it
					fail(w.post(o, f.Merkle, size, mp, exp, nil))
				} else {
					fail(w.post(o, f.Merkle, size, mp, exp, f))
				}
			},
			"postOdd": func(rt *rapid.T) { // whatever stateless validation lets through
				o := drawOwner(rt)
				size := rapid.SampledFrom([]int64{0, -1, -5000, math.MinInt64, math.MaxInt64, math.MaxInt64 / 2, 1 << 62, 3_000_000_000}).Draw(rt, "size")
				mp := rapid.SampledFrom([]int64{0, -1, 1, 2, 3, math.MaxInt64, math.MinInt64, 1 << 40}).Draw(rt, "maxProofs")
				exp := rapid.SampledFrom([]int64{0, 0, -1, math.MinInt64}).Draw(rt, "expires")
				nFile++
				fail(w.post(o, buildFile([]byte{byte(nFile), 1, 2}, 1024).Merkle, size, mp, exp, nil))
			},
			"repost": func(rt *rapid.T) {
				if len(w.posted) == 0 {
					rt.Skip()
				}
				ref := w.posted[rapid.IntRange(0, len(w.posted)-1).Draw(rt, "which")]
				var o chain.Account
				for _, a := range w.owners {
					if a.Bech == ref.Owner {
						o = a
					}
				}
				size := rapid.Int64Range(1, 3000).Draw(rt, "size")
				exp := int64(0) // the re-post may be of the other payment kind than the original
				if rapid.Bool().Draw(rt, "repostPayOnce") {
					exp = w.f.Height() + rapid.SampledFrom([]int64{20_000, 100_000}).Draw(rt, "expiresIn")
				}
				fail(w.post(o, ref.Merkle, size, rapid.Int64Range(1, 3).Draw(rt, "maxProofs"), exp, nil))
			},
			"delete": func(rt *rapid.T) {
				if len(w.posted) == 0 {
					rt.Skip()
				}
				ref := w.posted[rapid.IntRange(0, len(w.posted)-1).Draw(rt, "which")]
				signer := drawOwner(rt)
				if rapid.IntRange(0, 9).Draw(rt, "byOwner") < 7 {
					for _, a := range w.owners {
						if a.Bech == ref.Owner {
							signer = a
						}
					}
				}
				if rapid.IntRange(0, 9).Draw(rt, "unknown") == 0 {
					ref.Start += 1000
				}
				w.delete(signer, ref)
			},
			"prove": func(rt *rapid.T) {
				if len(w.files) == 0 {
					rt.Skip()
				}
				f := w.files[rapid.IntRange(0, len(w.files)-1).Draw(rt, "file")]
				w.prove(w.provs[rapid.IntRange(0, len(w.provs)-1).Draw(rt, "prover")], f)
			},
			"advance": func(rt *rapid.T) {
				n := rapid.IntRange(1, int(W)+2).Draw(rt, "blocks")
				dt := rapid.SampledFrom([]time.Duration{6 * time.Second, 6 * time.Second, 24 * time.Hour, 31 * 24 * time.Hour}).Draw(rt, "blockTime")
				before := len(w.c.App.StorageKeeper.GetAllFileByMerkle(w.f.Ctx))
				for i := 0; i < n; i++ {
					sig, msg := w.nextBlock(dt, 0)
					if sig != "" {
						fail("C07/"+sig, msg)
					}
					dt = 6 * time.Second
				}
				if len(w.c.App.StorageKeeper.GetAllFileByMerkle(w.f.Ctx)) < before {
					w.removedSeen = true
					w.logf("a reward block dropped file(s)")
				}
			},
			// a contract (any account can be one) that owns a plan posts through the chain's custom contract message instead of
			// a transaction, with sizes and replication counts a transaction would never get past validation with
			"contractPost": func(rt *rapid.T) {
				o := w.owners[rapid.IntRange(0, len(w.owners)-1).Draw(rt, "contract")]
				size := rapid.SampledFrom([]int64{-2_000_000_000, -1, 0, 1, 1000, 2_000_000_000}).Draw(rt, "size")
				mp := rapid.SampledFrom([]int64{-1, 0, 1, 3}).Draw(rt, "maxProofs")
				pm := &storagetypes.MsgPostFile{Creator: o.Bech, Merkle: buildFile([]byte(fmt.Sprintf("contract-%d-%d-%d", size, mp, len(w.trace))), 1024).Merkle, FileSize: size, MaxProofs: mp, Note: "{}"}
				custom, err := json.Marshal(map[string]interface{}{"post_file": pm})
				must(err)
				cctx, write := w.f.Ctx.CacheContext()
				_, _, derr := wasmMessenger(w.c.App).DispatchMsg(cctx, o.Addr, "", wasmvmtypes.CosmosMsg{Custom: custom})
				if derr == nil {
					write()
				}
				w.logf("contract %s posts size=%d maxProofs=%d through the custom message -> %v", short(o.Bech), size, mp, derr)
			},
			// the clock moves to just before / just after the end of somebody's plan (within seconds, hours, a day)
			"toPlanEnd": func(rt *rapid.T) {
				plans := w.c.App.StorageKeeper.GetAllStoragePaymentInfo(w.f.Ctx)
				if len(plans) == 0 {
					rt.Skip()
				}
				pl := plans[rapid.IntRange(0, len(plans)-1).Draw(rt, "plan")]
				delta := rapid.SampledFrom([]time.Duration{-time.Second, 0, time.Second, time.Hour, 24*time.Hour - time.Second, 24 * time.Hour, 25 * time.Hour}).Draw(rt, "afterEnd")
				dt := pl.End.Add(delta).Sub(w.f.Time())
				if dt <= 0 {
					rt.Skip()
				}
				w.logf("the clock moves to the end of the plan of %s %+v", short(pl.Address), delta)
				if sig, msg := w.nextBlock(dt, 0); sig != "" {
					fail("C07/"+sig, msg)
				}
				w.nearPlanEnd = true
			},
			"": func(rt *rapid.T) { fail(w.invariant()) },
		})
		if w.repost {
			rec.Count("histories-with-repost")
		}
		if w.nearPlanEnd {
			rec.Count("histories-visiting-the-end-of-a-plan")
		}
		rec.Case(w.removedSeen, ev.Hash(w.trace...), func() interface{} { return w.trace })
	})
}

func minI64(a, b int64) int64 {
	if a < b {
		return a
	}
	return b
}
