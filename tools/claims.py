NOT_CLAIMED = {}

claim("C20",
  "property-based test (rapid): generated segment lists vs an independent sha256 reference fold; metamorphic pairs for injectivity; round trip through the real PostFile handler",
  "Random exploration of segment lists (1-8 segments: empty, unicode, very long, digest look-alikes, split/joined neighbours) checks MerklePath/AddToMerkle against a reference fold written from the property text, trailing-slash neutrality, pairwise distinctness under six structural mutations, and that the Path returned by the real filetree PostFile handler equals the address computed from the plain path. Falsification only: passing means no counterexample among the generated cases.",
  "sha256 collision resistance is assumed for the distinctness clause; segments never contain '/' (a '/' is by definition a separator); the reference fold is the specification as read from the property statement and x/filetree/README.md.",
  "DESIGN.md section 4 C20")

claim("C13",
  "property-based test (rapid): generated mint parameter sets and block runs on a fork of the real app; invariant over full balance/supply snapshots per block; pure differential of GetMintForBlock against exact big.Rat arithmetic",
  "For generated parameter sets (TokensPerBlock 0..1e12, MintDecrease below/at/above blocks-per-year, ratio triples with sum <= 100, three denoms, three stipend accounts) 1-60 consecutive jklmint BeginBlocks run on the real keepers; each block is checked for: no panic, supply delta E >= 0 and <= previous E, exact floor(E*pct/100) credits to fee collector / dev grants / stipend, module remainder (< 3 when ratios sum to 100), no other balance change, MintedBlock(h) == E. Falsification only.",
  "Parameters are written with the keeper's SetParams standing in for a governance change, restricted to values the module's validators accept; ratios sum <= 100 and the stipend address is an ordinary account (as the property quantifier states). Other modules' BeginBlockers are not run in this check.",
  "DESIGN.md section 4 C13")

claim("C08",
  "model-based stateful property test (rapid state machine) on a fork of the real app: snapshot comparison of all name records and balances around every message against an ownership/consent model",
  "Generated histories (avg 35 steps) of all rns message types by 4 accounts over 2-4 names, with spelling variants and height jumps around expiries; after each message every strictly-live name must keep owner/data/records unless the message is a transfer/accept-bid signed by the owner or a buy through a listing the current owner created, and the previous owner must receive exactly the listed price / bid amount. Falsification only; the list->transfer->buy defect found this way is fixed in /repo (ea6085bc) and kept as a plain regression replay.",
  "Messages are executed with runMsgs semantics without the ante handler; the model of who created a listing is maintained from observed successful List messages; nothing is asserted for a name at height == Expires.",
  "DESIGN.md section 4 C08")

claim("C09",
  "model-based stateful property test (rapid state machine): conservation invariant (module balance == sum of open bids) after every step plus per-slot escrow model",
  "Same generator as C08 with bid/cancel/accept weighted up, two denominations, zero-amount bids, bids on unregistered names; invariant after every message: rns module account (all denoms) equals the sum of open bids read from the store; cancel returns exactly the slot's outstanding escrow, accept pays the owner exactly that and removes the bid, other messages leave the module balance unchanged. The rebid-without-refund defect found this way is fixed in /repo (b47bad51).",
  "Outstanding escrow per (bidder,name) is tracked from observed balance changes; fork mode without ante handler.",
  "DESIGN.md section 4 C09")

claim("C16",
  "property-based test (rapid) over registration histories on a fork of the real app with an exact big.Int price/expiry oracle",
  "Histories of 1-6 RegisterName messages with colliding names, both TLDs, ordinary and arithmetic-boundary year counts, poor and rich registrants, heights before/at/long after the previous expiry. Oracle per message: failure moves no funds; success debits exactly Y x yearly(len,tld) to the protocol-liquidity account and nobody else, the name resolves to the registrant, expiry >= height + Y x 5,484,530 (exactly old + Y x 5,484,530 for a live renewal), live names are refused to non-owners. Three defects found this way (expired-name terms, int64 wrap) are fixed in /repo (aee1d769) and replayed as plain regression cases on every run.",
  "The price table is copied into the oracle; height == Expires is accepted under either reading; fork mode without ante handler.",
  "DESIGN.md section 4 C16")

claim("C15",
  "model-based stateful property test (rapid state machine) with a conservation invariant over the real bank keeper",
  "Histories of init / shutdown / re-init / double shutdown by 4 accounts with balances around the price, interleaved with CollateralPrice changes in both directions; after every step the escrow account balance must equal the sum of Collateral records and the model, init debits exactly the current price, shutdown credits exactly the recorded amount once and removes provider and record. Falsification only.",
  "CollateralPrice is changed through the keeper's SetParams (values the validator accepts) standing in for governance; fork mode without ante handler.",
  "DESIGN.md section 4 C15")

claim("C12",
  "property-based test (rapid) over generated gauge sets and reward-block schedules on a fork of the real app; exact big.Int pro-rata oracle per gauge account",
  "1-5 concurrently live gauges from real purchases, pay-once posts and keeper-level creation (amounts 0..1e15, durations 1us..10y, odd nanosecond parts), twins created in the same block with equal end and coins, reward blocks at increments from 0 and 1us to beyond the end and at generated per-mille positions of a live gauge's remaining time. Every reward block checks every gauge: cumulative release within 1 of floor(D*elapsed/total) in whole microseconds, monotone, <= D, nothing outside the interval, pool credited exactly. The same-block id collision found this way is fixed in /repo (18cbf05d).",
  "No provers exist in this world so the pool only receives; coin amounts <= 1e15; the unreleased remainder of a gauge first seen after its end is outside the property (only 'nothing more' is asserted).",
  "DESIGN.md section 4 C12")

claim("C04",
  "property-based test (rapid) over payment histories on a fork of the real app; full balance/supply/gauge snapshot oracle with big.Int accounting",
  "Histories of 1-5 BuyStorage / pay-once PostFile messages under generated ratio and price parameters, price-feed states, payer balances, size tiers, durations, ForAddress and Referral choices (address, RNS name, self, unknown, junk, module accounts) and plan states (none/active/expired, with follow-up upgrades and renewals). Every message: failure moves nothing; success debits exactly the recomputed price (chain's exported cost function, independent proration and discount), gauge account credit equals the growth of its record, POL and referrer/fee-collector shares within one unit, remainder in the module account, credits <= debit, nobody else changes, supply constant. The referrer-paid-POL-share defect is fixed in /repo (1c4bf3e3).",
  "GetStorageCost/GetStorageCostKbs are taken as 'the price the chain computes'; coin amounts <= 1e15; fork mode without ante handler (no fees).",
  "DESIGN.md section 4 C04")

claim("C02",
  "property-based test (rapid) over generated (size, chunk size, window, check interval, start height, proof placement, gas seed) schedules on a fork of the real app, plus exhaustive enumeration of a small window/phase sub-space in the thorough tier; reference Merkle tree built from the property's leaf encoding",
  "Each schedule posts a real file, lets one or two honest registered providers join and prove once per file window at generated offsets (window edges and reward heights weighted up) and runs every block's storage BeginBlocker through the window after the last proof. Oracle: challenge always < ceil(size/chunk); honest proof accepted; prover still listed and burn counter \"0\" after every reward block; utils.BuildTree root equals the reference root. Thorough adds the exhaustive sub-space W,C in [2,9] x S in [1,WC] x join {0,1} x offsets {0,W/2,W-1}^3 (104,544 schedules).",
  "Falsification only outside the enumerated sub-space; owner's plan comes from a real purchase; CollateralPrice lowered by a parameter change.",
  "DESIGN.md section 4 C02")

claim("C03",
  "model-based property test (rapid) over generated file/prover/gauge configurations on a fork of the real app; before/after snapshot oracle at every reward block with big.Int share bands and pairwise proportionality",
  "Real files with real Merkle proofs, 2-6 provers joining in generated order, a generated subset (at generated list positions) stops proving, gauges of 1..1e15 ujkl, several reward blocks. At each reward block: prover lists must equal 'before minus those that missed' (the model knows every accepted proof height), burn counters rise by exactly the number of missed files, each counted prover's payout lies in [floor(R*c/N_all)-1, floor(R*c/N_counted)+1], payouts are pairwise proportional, uncounted accounts receive nothing, sum paid <= released. The skip/double-visit defect found this way is fixed in /repo (1f17aed0).",
  "The obligation rule (young, or last accepted proof in the current or previous file window) is the reading shared with C02; share denominators: both readings accepted; amounts <= 1e15.",
  "DESIGN.md section 4 C03")

claim("C01",
  "model-based stateful property test (rapid state machine) with an independent reference proof verifier; every MsgPostProof is classified valid/invalid by the reference and compared with the chain's answer and with a full before/after snapshot of all (account, file) prover states; reward-block payout oracle",
  "Histories of honest and dishonest submissions drawn from nine mutation classes (incl. cross-index proofs with the challenge steered through the block-gas seed, proofs for other/unknown/full files, stale or wrong ToProve, garbage payloads) against 1-3 real files of up to 320 chunks, with funded gauges and reward blocks. An invalid submission must answer Success=false and change nothing for anybody; only a valid accepted proof may change the submitter's own listing/LastProven/ChunkToProve; everybody credited at a reward block must be listed on a file it has validly proven. Both defects found (prover added before verification; cross-index acceptance) are fixed in /repo (964795e4, f0e15f76).",
  "The reference verifier (leaf sha256(decimal(i)||hex(item)), proof index == challenged index, sha3-512 unsalted tree) is the specification as read from the property; attestation refresh is covered by C14; fork mode without ante handler.",
  "DESIGN.md section 4 C01")

claim("C07",
  "model-based stateful property test (rapid state machine): accounting invariant recomputed from the by-owner file index after every step",
  "Histories of buy/upgrade/re-buy, plan-paid and pay-once posts (ordinary and boundary sizes x replication), same-block re-posts, deletes (own/foreign/unknown), real proofs, reward blocks that drop prover-less files and time jumps through plan expiry by 3 owners. After every step each plan's SpaceUsed must equal the summed footprint of the owner's live plan-paid files, stay within [0, SpaceAvailable], and a plan-paid post must have had a live plan with room. Five defects found (no return on delete/drop, negative sizes, double charge on re-post, int64 wrap in the room check) are fixed in /repo.",
  "plan-paid == Expires <= 0 (handler's branch condition); the by-owner index is trusted here and cross-checked against the by-merkle index by C17.",
  "DESIGN.md section 4 C07")

claim("C14",
  "model-based stateful property test (rapid state machine): quorum model (signed subset of named, fires once at |signed| >= m) compared after every message with LastProven / list membership of every pair and with the stored form",
  "Generated provider populations (distinct domains, same-domain, idle, unregistered), all (form size, minimum) pairs with 0 <= m <= n <= 6, attestation and report forms requested by provers / anybody, then arbitrary attest/report messages by named, unnamed, repeated signers and the prover itself against open, never-existing and consumed forms with second requests after consumption. A fresh form must name exactly n distinct registered providers that hold a proof and never the prover; deadlines refresh / provers are removed exactly at the step the model fires and the form is then gone; complete flags equal the set of named signers.",
  "If the prover is already gone when a quorum completes the code errors out and keeps the form: only 'no effect' is asserted; reward blocks are parameterised out of reach; fork mode without ante handler.",
  "DESIGN.md section 4 C14")

claim("C17",
  "stateful property test (rapid state machine) with a structural invariant recomputed from both indexes and the public queries after every step",
  "Histories of posts (few distinct contents, several owners, duplicate keys), deletes, valid and junk proofs, attestation/report flows driven to quorum, provider shutdown/re-init and reward blocks that remove provers and drop files. Invariant after every step and every block: by-content and by-owner records are the same set with byte-identical contents; AllFiles/AllFilesByOwner/AllFilesByMerkle agree; every prover list is duplicate-free, within MaxProofs, and each entry resolves via the Proof query and its built key to a record pointing back to the file.",
  "fewer than 10000 files per world; fork mode without ante handler.",
  "DESIGN.md section 4 C17")

claim("C18",
  "model-based stateful property test (rapid state machine): reference inbox / block-list model compared with all three notification queries after every step",
  "Histories of create / delete / block-senders among 4 accounts with address, name, unknown and malformed targets, crafted From strings on delete, names registered and transferred mid-history, block times from 1 microsecond to hours. After every step AllNotificationsByAddress equals the model inbox of every account (full records), AllNotifications equals the union, Notification finds each entry, blocked senders are refused. The phantom-entry defect (block entries listed as notifications) is fixed in /repo (416464ce).",
  "identity of a notification is (recipient, sender, block-time microseconds); name resolution is modelled from the rns Names records; fork mode without ante handler.",
  "DESIGN.md section 4 C18")

claim("C10",
  "model-based stateful property test (rapid state machine): reference tree with explicit account identity compared with the complete Files store after every message",
  "Histories of provision / post / re-post / delete / change-owner / add-remove-reset viewers and editors by owner, editor, viewer and stranger accounts, with string fields taken from existing entries or crafted (separators moved across the address/owner boundary, prefixes, blanks, near-identical ids, non-JSON access lists, short key lists). Authorisation is decided semantically by the model (account hash equality; editor id present in the parent's editor map); an unauthorised message must fail, an authorised one may fail without effect or succeed with exactly the modelled effect; after every step all records and all fields (access lists as parsed maps) must equal the model.",
  "sha256 collisions are not considered; fork mode without ante handler.",
  "DESIGN.md section 4 C10")

claim("C05",
  "property-based fuzzing of message sequences (rapid state machine; reflection-based generator over all custom message types plus structured storage actions) with recover() around block processing, in fork mode (jklmint + storage BeginBlockers) and through the assembled app's ABCI BeginBlock/EndBlock/Commit with signed transactions",
  "Sequences of all 45 custom message types with adversarial field values (extreme / zero / negative integers, odd merkles and JSON, hostile price feeds and coins), huge plans, real-merkle files with declared sizes up to MaxInt64, real proofs; block boundaries always run through reward heights, with jumps to file expiries and far-future heights in fork mode. Any panic escaping block processing is a violation (panics inside a transaction are failed transactions). Two chain-halting defects found (FileSize 0 -> division by zero; several huge files -> int64 wrap -> negative coin) are fixed in /repo (44118141, a1d381ca) and replayed on every run.",
  "Falsification only. Balances <= 1e15 ujkl; module parameters fixed at defaults except windows and collateral price (parameter changes are governance, not user transactions); no wasm contracts are executed.",
  "DESIGN.md section 4 C05")

claim("C11",
  "property-based tests (rapid): reflection-driven enumeration of all registered custom message types (programs x inputs) for the signer binding; differential signing (creator vs. foreign key) through the real ante handler in ABCI mode; stateful foreign-replay histories with an ownership-partitioned state snapshot oracle",
  "(a) all 45 registered request types, every field filled by reflection (distinct valid addresses in every string field, or generic values): GetSigners == [Creator], routable, TxConfig round trip preserved. (b) fresh app per case, real ante handler: a tx naming creator A but signed only by B is rejected before execution with no sequence bump or state change; signed by A it passes the ante handler whenever it is statelessly valid. (c) histories in which every account sends every message type with fields drawn from the owners' resources: after each message the provider record, collateral, feeds, inbox (except notifications the signer just sent), block list, primary-name pointer and set of stored files of every non-signer are unchanged; wasmbinding.PerformPostFile refuses a creator other than the contract.",
  "contract execution is not exercised (no wasm binaries offline); (b) covers the message types for which the generic generator produces a statelessly valid instance (count reported in the evidence notes).",
  "DESIGN.md section 4 C11")

claim("C06",
  "differential property test (rapid): generated ABCI histories of signed transactions executed on independent app instances (same process, delayed, fresh child process) and compared block by block",
  "Histories of 5-25 blocks over all custom modules (several provers with equal sizes credited in the same reward block with live gauges, height-seeded attestation/report shuffles, ACL edits with several ids, bids, notifications, adversarial reflective messages) are generated while executing on one app; the recorded signed bytes are replayed on a second instance (every case), on a third one 1.1 s later (sample) and in a fresh child process of the same binary (every 10th case quick, every case thorough). AppHash, per-tx code/codespace/gas/data, and the ordered event lists of BeginBlock, every DeliverTx and EndBlock must be identical.",
  "Falsification only; same binary and machine (no second architecture / Go version / libwasmvm available); no wasm contract execution.",
  "DESIGN.md section 4 C06")

claim("C19",
  "round-trip property test (rapid): generated ABCI histories populate all record kinds; export -> validate -> init a fresh app -> compare raw KV dumps per store/prefix, params and the re-exported genesis",
  "For each generated history the six custom modules are exported with their own ExportGenesis, validated, imported into a fresh app through InitChain, and compared with the source: every key/value of every custom store (grouped by prefix), params, and a second export. Four record kinds have no field in the genesis protos (storage FileProof, rns PrimaryName, notifications block entries, jklmint minted blocks); they are recorded in known_findings.json, replayed as a plain scenario on every run (KNOWN-FINDING lines) and excluded - counted - from the search so that any other loss is still reported.",
  "ActiveProviders/value/ is treated as unobservable (written by InitGenesis, read by nothing); bank/auth state is not carried over; the known findings cannot be repaired here because protoc/buf are absent.",
  "DESIGN.md section 4 C19")

# Later extensions of the generators / oracles (rounds 4-6 of the sensitivity work); appended to the claim text.
EXTRA = {
 "C01": "Also generated: holders without a provider registration, provider shutdowns, challenge steering through ToProve; the reward oracle additionally demands that a listed prover of a non-young file without a recent valid proof or attestation is off the list after the reward block, and bounds every payout by the share of validly proven files. Rounds 7-9 added: a restart action (storage module rebuilt in place from its exported genesis), busy worlds in which every holder is an active provider and forms need several signatures, attestation rounds with repeated signatures.",
 "C02": "Also generated: one or two further files posted 1..2W blocks later (windows out of phase) proven by the same provider; files paid once whose expiry falls inside the schedule (windows of 3600-14400 blocks, sparse stepping). Rounds 8-9 added: fellow provers on the same file that take a slot and then lapse.",
 "C03": "Also generated: gauges holding a second denomination (small amounts weighted up so that single cuts round to zero); the payout oracle is applied per denomination. Round 9 added: a pay-once file carried past its expiry with provers still proving.",
 "C04": "Also generated: referrers that have never been used on chain, upper-case spellings of creator/referrer, same-block twin payments. Requests outside the chain's current purchase policy that nevertheless succeed are judged by the accounting clauses alone.",
 "C05": "Also generated: creators spelled in upper case, century-scale expiries with matching height jumps, governance parameter changes of the mint and storage modules within meaningful ranges (percentages summing to <= 100, windows > 1, emissions up to MaxInt64) between messages. Rounds 7-8 added: gauge accounts named as referrers (addresses nobody can sign for are never creators), tiny pay-once files with 2^45..2^63 replicas.",
 "C06": "Every other in-process replica also answers gRPC queries of all custom modules and runs CheckTx between the steps of block execution and lives in another process-local time zone (zone rules embedded); histories contain files paid once for spans of months; the child process gets another TZ, locale, GOMAXPROCS and HOME. Rounds 7-8 added: histories anchored to the wall clock and re-executed 4.2 s later; the noisy replica is started with other operator settings (minimum-gas-prices, pruning, caches, event indexing).",
 "C07": "Also generated: non-multiples of a gigabyte, re-posts under either payment kind in the same block, deletes with the owner spelled in upper case, plans lapsing while files live.",
 "C08": "Also generated: three-label names handed to every handler, record labels coinciding with registered names, upper-case address spellings, bids in an 18-decimal denomination. Round 7 added: transactions whose last message fails (everything before it is rolled back).",
 "C09": "Also generated: bids of up to 2^128 base units of an 18-decimal denomination; a cancel of an open bid addressed exactly as stored must not be refused; every history ends with an export/import of the name-service genesis into a fresh store where the open bids must still add up to the module balance. Rounds 7-9 added: rolled-back transactions, registrants that hold almost nothing, bids of up to 2e9 ujkl.",
 "C10": "Also generated: access ids occurring as values (key blobs), access lists of other JSON shapes, upper-case hex spellings, reused tracking numbers. Round 7 added: transactions whose last message fails (rolled back).",
 "C11": "Also generated: creators that pass ValidateBasic but are no accounts (bech32 payloads of 1..300 bytes): GetSigners must name one signer or refuse; owners with a second name, height jumps beyond name expiries, sparse inbox patterns with boundary time stamps. The number of registered message types is reported, not asserted. Round 9 added: twin files of two owners proven by one provider, proof records as part of a file owner's resources; the foreign-resource comparison is scoped to the message groups the property names.",
 "C12": "Also generated: gauges holding two denominations (oracle per denomination), one schedule in forty with 101-140 live gauges. Rounds 7-8 added: triplets/quadruplets of equal same-block gauges, gifts of a foreign denomination to gauge accounts.",
 "C13": "Also generated: TokensPerBlock up to MaxInt64, stipend address equal to the developer-grants pool or a 32-byte address, start heights around digit-length boundaries, runs of 1000+ blocks. The minted-block record is reported, not asserted (its effect, a growing emission, is). Round 7 added: a parameter change in the middle of the run.",
 "C14": "Also generated: provider populations smaller than the form size, single-label hosts, upper-case spellings of prover and signer (all-or-nothing oracle), second requests on open forms (the model follows a replacement). The number of names on a form is reported, not asserted. The signature oracle judges effects only (a deadline moves / a prover leaves only through a named signature once the distinct named signers reach the minimum, in the form's own way, at most once per form); claimers, shutdowns, unregistered provers, restarts followed by a new prover, and re-joining provers are generated.",
 "C15": "Also generated: provider-record edits (SetProviderIP / Keybase / TotalSpace), storage activity (a customer's files, provers falling silent, reward blocks that burn contracts), creators spelled in upper case; every history ends with an export/import of the storage genesis where the records must still add up to the escrow balance. Round 8 added: vesting accounts (all coins locked) registering as providers.",
 "C16": "Also generated: free initial registrations (MsgInit, several per block) at heights whose generated candidate names are partly held by paying registrants, holders of free names paying for them while live. Rounds 7-9 added: blank separators (the oracle prices the name as registered), standing bids, listings by the holder.",
 "C17": "Also generated: deletes with the owner spelled in upper case, provers under two spellings, FindFile; every history ends with an export/import of the storage genesis (both listings must hold exactly the files listed before), after which every prover posts one more proof and the lists are re-checked for duplicates and the limit. Rounds 7-9 added: governance changes of the proof window, forms opened now and signed later.",
 "C18": "Also generated: keyless 32-byte recipients (one constructed so that its bech32 string begins with another recipient's), upper-case spellings of sender / recipient / blocker, path-like sender strings in deletes by third parties. Rounds 7-9 added: block times with chosen low bytes, JSON contents with insignificant whitespace.",
 "C19": "A second search exports from fork-mode worlds: name-service histories with jumps beyond expiries, and worlds in which all 45 message types hit owners' resources between mint/storage block boundaries and governance parameter changes (any value the per-key validators accept). Rolled-back transactions in the fork worlds; the modules' single-record queries are compared before export / after import; re-keyed records are classified by what their value decodes to.",
 "C20": "Also generated: raw byte segments (invalid UTF-8), percent signs, backslashes, non-NFC unicode. Rounds 7-8 added: deep paths (15..257 segments), verbatim and modified re-posts.",
}
