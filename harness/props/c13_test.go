package props

// C13 — block emission is non-increasing, non-negative and fully distributed.
//
// Fork mode: parameters are set the way a governance parameter change would set them
// (values the module's validators accept), then 1..N consecutive jklmint BeginBlocks
// run; before/after each block every balance and the supply are snapshotted.

import (
	"fmt"
	banktypes "github.com/cosmos/cosmos-sdk/x/bank/types"
	"math"
	"math/big"
	"testing"
	"time"

	sdk "github.com/cosmos/cosmos-sdk/types"
	authtypes "github.com/cosmos/cosmos-sdk/x/auth/types"
	"pgregory.net/rapid"

	mintkeeper "github.com/jackalLabs/canine-chain/v4/x/jklmint/keeper"
	minttypes "github.com/jackalLabs/canine-chain/v4/x/jklmint/types"
	mintutils "github.com/jackalLabs/canine-chain/v4/x/jklmint/utils"

	"verifharness/chain"
	"verifharness/ev"
)

const blocksPerYear int64 = (365 * 24 * 60 * 60) / 6

type c13Params struct {
	TokensPerBlock, MintDecrease int64
	Staker, Dev, Provider        int64
	Denom                        string
	Stipend                      int
	Transfers                    int // bank setting for user transfers: 0 enabled, 1 disabled by default, 2 disabled for the mint denomination
	Blocks                       int
	StartHeight                  int64
	// a parameter change by governance in the middle of the run (ChangeAt < 0: none): new decrease, emission base and ratios
	ChangeAt                       int
	NewDecrease, NewTokens         int64
	NewStaker, NewDev, NewProvider int64
}

func genC13(rt *rapid.T) c13Params {
	var p c13Params
	p.TokensPerBlock = rapid.OneOf(
		rapid.SampledFrom([]int64{0, 1, 2, 3, 4, 7, 99, 300, 4_200_000, 1_000_000_000_000}),
		rapid.Int64Range(0, 400),
		// emissions of an 18-decimal denomination, up to the largest value the parameter can hold
		rapid.SampledFrom([]int64{92_233_720_368_547_758, 92_233_720_368_547_759, 115_292_150_460_684_698, 1_000_000_000_000_000_000, 4_200_000_000_000_000_000, 4_699_999_999_999_999_999, math.MaxInt64/2 + 1, math.MaxInt64 - 1, math.MaxInt64}),
		rapid.Int64Range(1<<56, math.MaxInt64),
	).Draw(rt, "tokensPerBlock")
	p.MintDecrease = rapid.OneOf(
		rapid.SampledFrom([]int64{0, 1, 6, blocksPerYear - 1, blocksPerYear, blocksPerYear + 1, 2 * blocksPerYear, 3*blocksPerYear + 17, 1_000_000_000, 50 * blocksPerYear}),
		rapid.Int64Range(0, 20*blocksPerYear),
	).Draw(rt, "mintDecrease")
	// ratios >= 0 with sum <= 100 (constructive: split 100 at two cut points, optionally leave a rest)
	total := rapid.SampledFrom([]int64{100, 100, 100, 99, 50, 0, 37}).Draw(rt, "ratioSum")
	a := rapid.Int64Range(0, total).Draw(rt, "staker")
	b := rapid.Int64Range(0, total-a).Draw(rt, "dev")
	p.Staker, p.Dev, p.Provider = a, b, total-a-b
	p.Denom = rapid.SampledFrom([]string{"ujkl", "ujkl", "ujkl", "", "uother"}).Draw(rt, "denom")
	// -1: the stipend goes to the developer-grants pool itself (one account, two shares); -2: a 32-byte address
	p.Transfers = rapid.SampledFrom([]int{0, 0, 0, 1, 2}).Draw(rt, "userTransfers")
	p.Stipend = rapid.SampledFrom([]int{chain.AccStipend, chain.AccStipend, 0, 1, -1, -1, -2}).Draw(rt, "stipend")
	p.Blocks = rapid.IntRange(1, 60).Draw(rt, "blocks")
	if rapid.IntRange(0, 39).Draw(rt, "longRun") == 0 {
		p.Blocks = rapid.IntRange(1000, 1100).Draw(rt, "blocksLong")
	}
	// heights around digit-length boundaries matter to anything keyed by a decimal height
	p.ChangeAt = -1
	if rapid.IntRange(0, 3).Draw(rt, "midRunChange") == 0 {
		p.ChangeAt = rapid.IntRange(1, 12).Draw(rt, "changeAt")
		p.NewDecrease = rapid.SampledFrom([]int64{0, 0, 1, 6, blocksPerYear, 2 * blocksPerYear}).Draw(rt, "newDecrease")
		p.NewTokens = rapid.SampledFrom([]int64{0, 1, 4_200_000, 8_400_000, 1_000_000_000_000}).Draw(rt, "newTokensPerBlock")
		t2 := rapid.SampledFrom([]int64{100, 100, 50, 0}).Draw(rt, "newRatioSum")
		p.NewStaker = rapid.Int64Range(0, t2).Draw(rt, "newStaker")
		p.NewDev = rapid.Int64Range(0, t2-p.NewStaker).Draw(rt, "newDev")
		p.NewProvider = t2 - p.NewStaker - p.NewDev
	}
	p.StartHeight = rapid.SampledFrom([]int64{1, 2, 8, 95, 100, 990, 999, 1000, 1001, 9_990, 10_000, 99_995, 100_000, 999_990, 1_000_000, 5_000_000, 9_999_990}).Draw(rt, "start")
	return p
}

// c13Run executes the run and returns "" or (sig, message).
func c13Run(c *chain.Chain, p c13Params, rec *ev.Rec) (sig, msg string, reachedLow bool) {
	f := c.Fork(p.StartHeight-1, chain.GenesisTime)
	mp := minttypes.Params{MintDenom: p.Denom, DevGrantsRatio: p.Dev, TokensPerBlock: p.TokensPerBlock, StakerRatio: p.Staker, MintDecrease: p.MintDecrease, StorageStipendAddress: c13StipendAddr(p.Stipend), StorageProviderRatio: p.Provider}
	if err := mp.Validate(); err != nil {
		return "C13/harness", "generated params rejected: " + err.Error(), false
	}
	c.App.MintKeeper.SetParams(f.Ctx, mp)
	// a chain launched with user transfers switched off (of everything, or of the mint denomination): that is a setting for
	// transactions between users and has no bearing on what the protocol itself distributes
	switch p.Transfers {
	case 1:
		c.App.BankKeeper.SetParams(f.Ctx, banktypes.Params{DefaultSendEnabled: false})
	case 2:
		d := p.Denom
		if d == "" {
			d = "ujkl"
		}
		c.App.BankKeeper.SetParams(f.Ctx, banktypes.Params{DefaultSendEnabled: true, SendEnabled: []*banktypes.SendEnabled{{Denom: d, Enabled: false}}})
	}
	denom := p.Denom
	if denom == "" {
		denom = "ujkl"
	}
	feeColl := authtypes.NewModuleAddress(authtypes.FeeCollectorName).String()
	mintMod := authtypes.NewModuleAddress(minttypes.ModuleName).String()
	devAddr, err := mintkeeper.GetDevGrantsAccount()
	must(err)
	dev := devAddr.String()
	stipend := c13StipendAddr(p.Stipend)

	prevE := big.NewInt(p.TokensPerBlock)
	floorPct := func(e *big.Int, pct int64) *big.Int {
		x := new(big.Int).Mul(e, big.NewInt(pct))
		return x.Quo(x, big.NewInt(100))
	}
	for i := 0; i < p.Blocks; i++ {
		h := p.StartHeight + int64(i)
		if i == p.ChangeAt && i > 0 {
			np := minttypes.NewParams(p.Denom, p.NewDev, p.NewTokens, p.NewStaker, p.NewDecrease, c13StipendAddr(p.Stipend), p.NewProvider)
			if np.Validate() == nil {
				c.App.MintKeeper.SetParams(f.Ctx, np)
				p.Staker, p.Dev, p.Provider = p.NewStaker, p.NewDev, p.NewProvider
				rec.Count("runs-with-a-parameter-change-in-the-middle")
			}
		}
		f.SetBlock(h, chain.GenesisTime.Add(time.Duration(i+1)*6*time.Second))
		before := f.Snapshot()
		supBefore := f.AllSupply()
		bb := f.BeginCustom(true, false)
		if bb.Panic != nil {
			return "C13/panic", fmt.Sprintf("jklmint BeginBlocker panicked at block %d of the run (height %d): %v", i+1, h, bb.Panic), reachedLow
		}
		after := f.Snapshot()
		supAfter := f.AllSupply()
		// supply: only the mint denom may change
		E := new(big.Int).Sub(supAfter.AmountOf(denom).BigInt(), supBefore.AmountOf(denom).BigInt())
		for _, co := range supAfter {
			if co.Denom != denom && !co.Amount.Equal(supBefore.AmountOf(co.Denom)) {
				return "C13/foreign-supply", fmt.Sprintf("supply of %s changed at height %d", co.Denom, h), reachedLow
			}
		}
		if E.Sign() < 0 {
			return "C13/negative-emission", fmt.Sprintf("supply shrank by %s at height %d", E, h), reachedLow
		}
		if E.Cmp(prevE) > 0 {
			return "C13/increasing-emission", fmt.Sprintf("emission %s at height %d exceeds previous emission %s", E, h, prevE), reachedLow
		}
		if E.Cmp(big.NewInt(3)) <= 0 {
			reachedLow = true
		}
		want := map[string]*big.Int{}
		add := func(addr string, v *big.Int) {
			if want[addr] == nil {
				want[addr] = new(big.Int)
			}
			want[addr].Add(want[addr], v)
		}
		sA, sB, sC := floorPct(E, p.Staker), floorPct(E, p.Dev), floorPct(E, p.Provider)
		add(feeColl, sA)
		add(dev, sB)
		add(stipend, sC)
		rest := new(big.Int).Sub(E, new(big.Int).Add(sA, new(big.Int).Add(sB, sC)))
		add(mintMod, rest)
		if p.Staker+p.Dev+p.Provider == 100 && rest.Cmp(big.NewInt(3)) >= 0 {
			return "C13/remainder", fmt.Sprintf("mint module keeps %s (>= 3) of emission %s at height %d", rest, E, h), reachedLow
		}
		got := map[string]*big.Int{}
		for _, d := range before.Diff(after) {
			if d.Denom != denom {
				return "C13/foreign-credit", fmt.Sprintf("%s changed by %s %s at height %d", d.Addr, d.Diff, d.Denom, h), reachedLow
			}
			got[d.Addr] = d.Diff.BigInt()
		}
		for addr, w := range want {
			g := got[addr]
			if g == nil {
				g = new(big.Int)
			}
			if g.Cmp(w) != 0 {
				return "C13/split", fmt.Sprintf("height %d emission %s ratios %d/%d/%d: %s received %s, expected %s", h, E, p.Staker, p.Dev, p.Provider, c13Name(addr, feeColl, dev, stipend, mintMod), g, w), reachedLow
			}
		}
		for addr, g := range got {
			if want[addr] == nil && g.Sign() != 0 {
				return "C13/foreign-credit", fmt.Sprintf("account %s credited %s at height %d", addr, g, h), reachedLow
			}
		}
		mb, found := c.App.MintKeeper.GetMintedBlock(f.Ctx, h)
		if !found || big.NewInt(mb.Minted).Cmp(E) != 0 {
			// how the module remembers the previous emission is its own business: a wrong or missing record shows as an
			// emission that grows at the next block, which is what the property forbids and what is asserted above
			rec.Count("blocks-whose-minted-record-differs-from-the-emission")
		}
		prevE = E
	}
	return "", "", reachedLow
}

func c13StipendAddr(i int) string {
	switch i {
	case -1:
		a, err := mintkeeper.GetDevGrantsAccount()
		must(err)
		return a.String()
	case -2:
		return sdk.AccAddress(bytes32(0x31)).String()
	}
	return chain.Acc(i).Bech
}

func c13Name(addr, fee, dev, stip, mod string) string {
	switch addr {
	case fee:
		return "fee collector (stakers)"
	case dev:
		return "dev-grants account"
	case stip:
		return "storage stipend account"
	case mod:
		return "jklmint module account"
	}
	return addr
}

func TestC13(t *testing.T) {
	rec := ev.For("C13")
	rec.Describe("fork mode: generated jklmint params (TokensPerBlock from 0 up to the int64 maximum, MintDecrease incl. >= blocks-per-year, three ratios summing to <=100, denom, stipend account) then 1-60 consecutive jklmint BeginBlocks with full balance+supply snapshots around each; plus pure GetMintForBlock cases. Non-trivial = the run reached an emission <= 3 (rounding/zero region) ; distinct = distinct parameter tuples.",
		"ratios sum to at most 100 and the stipend address is an ordinary valid account distinct from the fee collector and dev-grants accounts (property quantifier)",
		"mint denom is a syntactically valid denom (ujkl, empty = ujkl, uother)")
	c := chain.New(chain.GenesisOpts{NumAccounts: 2, Balance: sdk.NewCoins(sdk.NewInt64Coin(chain.Denom, 1_000_000))})
	defer c.Close()

	// ---- regression replays (plain Go) ----
	for _, r := range []struct {
		sig string
		p   c13Params
	}{
		{"C13/panic/decrease-ge-blocks-per-year", c13Params{TokensPerBlock: 4, MintDecrease: 3 * blocksPerYear, Staker: 80, Dev: 8, Provider: 12, Denom: "ujkl", Stipend: chain.AccStipend, Blocks: 4, StartHeight: 1, ChangeAt: -1}},
		{"C13/panic/decrease-eq-blocks-per-year-from-zero", c13Params{TokensPerBlock: 0, MintDecrease: blocksPerYear, Staker: 80, Dev: 8, Provider: 12, Denom: "ujkl", Stipend: chain.AccStipend, Blocks: 2, StartHeight: 1, ChangeAt: -1}},
	} {
		sig, msg, _ := c13Run(c, r.p, rec)
		rec.Regress(r.sig, sig != "", msg)
	}
	if os_only_regress() {
		return
	}

	search(t, rec, "blocks", budget(3000, 320000), 0, func(rt *rapid.T) {
		p := genC13(rt)
		sig, msg, low := c13Run(c, p, rec)
		if sig != "" {
			failf(rt, rec, sig, p, "%s", msg)
		}
		rec.Count(fmt.Sprintf("ratioSum=%d", p.Staker+p.Dev+p.Provider))
		if p.MintDecrease >= blocksPerYear {
			rec.Count("decrease>=bpy")
		}
		rec.Case(low, ev.Hash(js(p)), func() interface{} { return p })
	})

	search(t, rec, "pure", budget(20000, 2000000), 0, func(rt *rapid.T) {
		prev := rapid.OneOf(rapid.Int64Range(0, 10), rapid.Int64Range(0, 1<<40), rapid.Int64Range(0, 1<<62)).Draw(rt, "prev")
		dec := rapid.OneOf(rapid.Int64Range(0, 10), rapid.Int64Range(blocksPerYear-2, blocksPerYear+2), rapid.Int64Range(0, 1<<40), rapid.Int64Range(0, 1<<62)).Draw(rt, "decrease")
		var got int64
		func() {
			defer func() {
				if r := recover(); r != nil {
					failf(rt, rec, "C13/pure-panic", []int64{prev, dec}, "GetMintForBlock(%d, bpy, %d) panicked: %v", prev, dec, r)
				}
			}()
			got = mintutils.GetMintForBlock(prev, blocksPerYear, dec)
		}()
		if got < 0 || got > prev {
			failf(rt, rec, "C13/pure-range", []int64{prev, dec}, "GetMintForBlock(%d, bpy, %d) = %d, outside [0, previous]", prev, dec, got)
		}
		// reference: previous minus the exact decrease, truncated toward zero, clamped at 0
		ref := new(big.Rat).Sub(new(big.Rat).SetInt64(prev), big.NewRat(dec, blocksPerYear))
		want := new(big.Int).Quo(ref.Num(), ref.Denom()) // big.Int.Quo truncates toward zero
		if want.Sign() < 0 {
			want.SetInt64(0)
		}
		if want.Cmp(big.NewInt(got)) != 0 {
			failf(rt, rec, "C13/pure-value", []int64{prev, dec}, "GetMintForBlock(%d, bpy, %d) = %d, exact truncated value is %s", prev, dec, got, want)
		}
		rec.Case(prev <= 3 || dec >= blocksPerYear, ev.Hash(fmt.Sprint(prev, "/", dec)), func() interface{} {
			return map[string]int64{"prev": prev, "decrease": dec, "next": got}
		})
	})
}
