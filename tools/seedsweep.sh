#!/bin/bash
# seedsweep.sh [tier]: apply every stored seeded change (seeded/<id>/patch.diff) to /repo in turn, run the quick (or given)
# check of its property, restore /repo, and write one line per change to seeded/SWEEP.txt.
tier=${1:-quick}
out=/verif/seeded/SWEEP.txt
: > $out.tmp
for d in /verif/seeded/*/; do
  name=$(basename $d)
  [ -f $d/patch.diff ] || continue
  id=$(jq -r .property $d/meta.json)
  if ! git -C /repo apply --check $d/patch.diff 2>/dev/null; then
    echo "$name $id NOT-APPLICABLE (does not apply to the current tree: superseded by a repair)" >> $out.tmp; continue
  fi
  res=$(/verif/tools/seedrun.sh $d/patch.diff $id $tier 2>&1)
  rc=$(echo "$res" | grep -o "check exit=[0-9]*" | cut -d= -f2)
  sig=$(echo "$res" | grep -o "^  C[0-9][0-9]/[^:]*" | head -1 | tr -d ' ')
  case "$rc" in 1) r="KILLED $sig";; 0) r=SURVIVED;; *) r="rc=$rc";; esac
  echo "$name $id $r" >> $out.tmp
  echo "$name $id $r"
done
mv $out.tmp $out
