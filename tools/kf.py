#!/usr/bin/env python3
"""Append an entry to known_findings.json:  kf.py <property> <sig> <known|fixed> <commit|-> <what...>"""
import json, sys, os
ROOT = os.path.dirname(os.path.dirname(os.path.abspath(__file__)))
p = os.path.join(ROOT, "known_findings.json")
d = json.load(open(p))
prop, sig, status, commit = sys.argv[1:5]
what = " ".join(sys.argv[5:])
e = {"property": prop, "sig": sig, "status": status, "what": what}
if commit != "-":
    e["commit"] = commit
e["line"] = ("fixed: property=%s %s %s" % (prop, commit, what)) if status == "fixed" else ("known: property=%s %s" % (prop, what))
d["findings"] = [f for f in d["findings"] if f["sig"] != sig] + [e]
json.dump(d, open(p, "w"), indent=1)
print(e["line"])
