package props

// Shared "RNS world" for C08 (ownership / consent / payment), C09 (bid escrow
// conservation) and parts of C16/C18/C04: a fork of the real app with a handful of
// funded accounts, generated name-service messages, and a model of listings and
// escrow that is maintained from observed message outcomes only.

import (
	"fmt"
	"sort"
	"strings"
	"time"

	sdk "github.com/cosmos/cosmos-sdk/types"
	authtypes "github.com/cosmos/cosmos-sdk/x/auth/types"
	"pgregory.net/rapid"

	rnstypes "github.com/jackalLabs/canine-chain/v4/x/rns/types"

	"verifharness/chain"
)

const rnsYearBlocks int64 = 5484530

// reference price table (base units of ujkl per year), written down independently
var rnsBase = map[string]int64{"jkl": 10_000_000, "ibc": 50_000_000}

func rnsYearly(nameLen int, tld string) int64 {
	b := rnsBase[tld]
	switch {
	case nameLen <= 0:
		return -1
	case nameLen == 1:
		return b * 24
	case nameLen == 2:
		return b * 12
	case nameLen == 3:
		return b * 6
	case nameLen == 4:
		return b * 3
	}
	return b
}

var polAddr = func() string {
	chain.InitConfig()
	a, err := rnsPol()
	must(err)
	return a.String()
}()

type rnsListing struct {
	Creator string
	Price   sdk.Coin
}

type rnsWorld struct {
	c      *chain.Chain
	f      *chain.Fork
	accs   []chain.Account
	canon  []string // canonical names "name.tld" in play
	tiedUp bool     // a bidder with its money tied up in a standing bid changed that bid
	trace  []string

	listings map[string]rnsListing // lower(msg name) -> listing as observed at List time
	escrow   map[string]sdk.Coins  // bidder+lower(name) -> escrowed and not yet returned

	// class flags for non-triviality
	moveWithStaleListing bool // an ownership move happened while a listing/bid created under an earlier owner existed
	rebid                bool // a second bid hit an existing (bidder, name) slot
	staleAttempt         bool
	cancelAfterRebid     bool
}

func rnsModuleAddr() string { return authtypes.NewModuleAddress(rnstypes.ModuleName).String() }

func newRnsWorld(c *chain.Chain, nAcc int) *rnsWorld {
	w := &rnsWorld{c: c, f: c.Fork(10, chain.GenesisTime.Add(time.Minute)),
		listings: map[string]rnsListing{}, escrow: map[string]sdk.Coins{}}
	for i := 0; i < nAcc; i++ {
		w.accs = append(w.accs, chain.Acc(i))
	}
	return w
}

func (w *rnsWorld) logf(format string, a ...interface{}) {
	w.trace = append(w.trace, fmt.Sprintf("h=%d ", w.f.Height())+fmt.Sprintf(format, a...))
}

// canonKey maps a spelled message name to the key of the Names record it addresses
// ("name.tld"), mirroring only the documented normalisation (lower-casing); the
// character before the TLD is the separator.
func canonKey(spelled string) (string, bool) {
	s := strings.ToLower(spelled)
	for _, tld := range []string{"ibc", "jkl"} {
		if len(s) > len(tld)+1 && strings.HasSuffix(s, tld) {
			return s[:len(s)-len(tld)-1] + "." + tld, true
		}
	}
	return "", false
}

type nameRec struct {
	Value   string
	Data    string
	Subs    string
	Expires int64
	Locked  int64
}

func (w *rnsWorld) names() map[string]nameRec {
	out := map[string]nameRec{}
	for _, n := range w.c.App.RnsKeeper.GetAllNames(w.f.Ctx) {
		var subs []string
		for _, s := range n.Subdomains {
			subs = append(subs, fmt.Sprintf("%s=%s|%s", s.Name, s.Value, s.Data))
		}
		out[n.Name+"."+n.Tld] = nameRec{n.Value, n.Data, strings.Join(subs, ";"), n.Expires, n.Locked}
	}
	return out
}

func (w *rnsWorld) openBids() map[string]sdk.Coins {
	out := map[string]sdk.Coins{}
	for _, b := range w.c.App.RnsKeeper.GetAllBids(w.f.Ctx) {
		coins, err := sdk.ParseCoinsNormalized(b.Price)
		if err != nil {
			coins = nil
		}
		out[b.Bidder+b.Name] = coins
	}
	return out
}

func (w *rnsWorld) moduleBalance() sdk.Coins {
	return w.c.App.BankKeeper.GetAllBalances(w.f.Ctx, authtypes.NewModuleAddress(rnstypes.ModuleName))
}

// spell draws a spelling of a canonical name: exact, upper-cased name part, or with a
// non-dot separator character (the parser ignores which character precedes the TLD).
func spell(rt *rapid.T, canon string) string {
	i := strings.LastIndex(canon, ".")
	name, tld := canon[:i], canon[i+1:]
	switch rapid.IntRange(0, 11).Draw(rt, "spelling") {
	case 0:
		return strings.ToUpper(name) + "." + tld
	case 1:
		return name + "x" + tld
	case 2:
		return name + "-" + tld
	case 3: // a record-style three-label name handed to a handler that expects "name.tld"
		return rapid.SampledFrom([]string{"www", "mail", "a", "ab", "abcde"}).Draw(rt, "label") + "." + canon
	}
	return canon
}

func (w *rnsWorld) drawAcc(rt *rapid.T, label string) chain.Account {
	return w.accs[rapid.IntRange(0, len(w.accs)-1).Draw(rt, label)]
}

// drawSigner prefers the current owner of the name (so that authorised paths are
// exercised) but also draws everybody else.
func (w *rnsWorld) drawSigner(rt *rapid.T, key string) chain.Account {
	if n, ok := w.names()[key]; ok && rapid.IntRange(0, 9).Draw(rt, "byOwner") < 6 {
		for _, a := range w.accs {
			if a.Bech == n.Value {
				return a
			}
		}
	}
	return w.drawAcc(rt, "signer")
}

func (w *rnsWorld) drawCanon(rt *rapid.T) string {
	return w.canon[rapid.IntRange(0, len(w.canon)-1).Draw(rt, "name")]
}

func drawCoin(rt *rapid.T, label string) sdk.Coin {
	if rapid.IntRange(0, 14).Draw(rt, label+"-oddDenom") == 0 {
		// nothing validates the coin of a bid message: a denomination string that reads like a list makes the price two coins
		return sdk.Coin{Denom: rapid.SampledFrom([]string{"uatom,7ujkl", "ujkl,3uatom", "ujkl,0uatom"}).Draw(rt, label+"-listDenom"), Amount: sdk.NewInt(rapid.Int64Range(1, 9).Draw(rt, label+"-listAmt"))}
	}
	denom := rapid.SampledFrom([]string{"ujkl", "ujkl", "uatom", "aeth"}).Draw(rt, label+"-denom")
	if denom == "aeth" {
		// an 18-decimal denomination (bridged vouchers): a handful of tokens is more base units than an int64 holds
		big := rapid.SampledFrom([]string{"1", "9223372036854775807", "9223372036854775808", "10000000000000000000", "25000000000000000000", "340282366920938463463374607431768211456"}).Draw(rt, label+"-bigAmt")
		amt, ok := sdk.NewIntFromString(big)
		if !ok {
			panic("bad literal " + big)
		}
		return sdk.NewCoin(denom, amt)
	}
	amt := rapid.OneOf(rapid.Int64Range(0, 20), rapid.Int64Range(1, 5_000_000), rapid.Int64Range(5_000_000, 2_000_000_000)).Draw(rt, label+"-amt")
	return sdk.NewInt64Coin(denom, amt)
}

// rnsStep is what the oracles see of one executed message.
type rnsStep struct {
	Kind         string
	Signer       string
	Name         string // spelled
	Key          string // canonical record key
	Res          chain.Result
	NamesBefore  map[string]nameRec
	NamesAfter   map[string]nameRec
	BalBefore    chain.Balances
	BalAfter     chain.Balances
	BidsBefore   map[string]sdk.Coins
	BidsAfter    map[string]sdk.Coins
	Height       int64
	Receiver     string   // transfer
	From         string   // accept bid
	Coin         sdk.Coin // bid / list
	ListingModel rnsListing
	HadListing   bool
	EscrowModel  sdk.Coins // outstanding escrow of the slot touched (before the step)
}

func (w *rnsWorld) run(kind string, signer chain.Account, spelled string, msg sdk.Msg, extra func(*rnsStep)) *rnsStep {
	key, _ := canonKey(spelled)
	st := &rnsStep{Kind: kind, Signer: signer.Bech, Name: spelled, Key: key, Height: w.f.Height()}
	st.NamesBefore, st.BalBefore, st.BidsBefore = w.names(), w.f.Snapshot(), w.openBids()
	if l, ok := w.listings[strings.ToLower(spelled)]; ok {
		st.ListingModel, st.HadListing = l, true
	}
	if extra != nil {
		extra(st)
	}
	st.Res = w.f.Exec(msg)
	st.NamesAfter, st.BalAfter, st.BidsAfter = w.names(), w.f.Snapshot(), w.openBids()
	w.logf("%s by acc%d name=%q %s -> %s", kind, signer.Index, spelled, rnsExtra(st), st.Res)
	return st
}

func rnsExtra(st *rnsStep) string {
	var parts []string
	if st.Receiver != "" {
		parts = append(parts, "to="+short(st.Receiver))
	}
	if st.From != "" {
		parts = append(parts, "from="+short(st.From))
	}
	if st.Coin.Denom != "" {
		parts = append(parts, "coin="+st.Coin.String())
	}
	return strings.Join(parts, " ")
}

func short(addr string) string {
	for i := 0; i < 40; i++ {
		if chain.Acc(i).Bech == addr {
			return fmt.Sprintf("acc%d", i)
		}
	}
	if len(addr) > 12 {
		return addr[:12]
	}
	return addr
}

// updateModel maintains listings / escrow from the observed outcome of a step.
func (w *rnsWorld) updateModel(st *rnsStep) {
	if !st.Res.OK() {
		return
	}
	lname := strings.ToLower(st.Name)
	switch st.Kind {
	case "list":
		w.listings[lname] = rnsListing{Creator: st.Signer, Price: st.Coin}
	case "delist", "buy":
		delete(w.listings, lname)
	case "bid":
		slot := st.Signer + lname
		if _, had := st.BidsBefore[slot]; had {
			w.rebid = true
		}
		// outstanding += what actually left the bidder's account in this step
		out := w.escrow[slot]
		for _, d := range st.BalBefore.Diff(st.BalAfter) {
			if d.Addr == st.Signer {
				if d.Diff.IsNegative() {
					out = out.Add(sdk.NewCoin(d.Denom, d.Diff.Neg()))
				} else {
					out = out.Sub(sdk.NewCoins(sdk.NewCoin(d.Denom, sdk.MinInt(d.Diff, out.AmountOf(d.Denom)))))
				}
			}
		}
		w.escrow[slot] = out
	case "cancel":
		delete(w.escrow, st.Signer+lname)
	case "accept":
		delete(w.escrow, st.From+lname)
	}
	// class: ownership moved while something created under an earlier owner is still around
	if st.Key != "" {
		b, a := st.NamesBefore[st.Key], st.NamesAfter[st.Key]
		if b.Value != "" && a.Value != b.Value {
			for ln, l := range w.listings {
				if k, _ := canonKey(ln); k == st.Key && l.Creator != a.Value {
					w.moveWithStaleListing = true
				}
			}
			for slot := range st.BidsAfter {
				if strings.HasSuffix(slot, lname) {
					w.moveWithStaleListing = true
				}
			}
		}
	}
}

func sortedNameKeys(m map[string]nameRec) []string {
	out := make([]string, 0, len(m))
	for k := range m {
		out = append(out, k)
	}
	sort.Strings(out)
	return out
}
