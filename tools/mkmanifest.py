#!/usr/bin/env python3
"""Regenerates /verif/MANIFEST.json from the table below (one entry per property)."""
import json, os
ROOT = os.path.dirname(os.path.dirname(os.path.abspath(__file__)))

# id -> dict(technique, text, note, ref)   (only properties whose check exists)
CHECKS = {}
def claim(pid, technique, text, note, ref):
    CHECKS[pid] = dict(technique=technique, text=text, note=note, ref=ref)

EXTRA = {}
exec(open(os.path.join(ROOT, "tools", "claims.py")).read())
for _pid, _extra in EXTRA.items():
    if _pid in CHECKS:
        CHECKS[_pid]["text"] += " " + _extra

props = [json.loads(l) for l in open(os.path.join(ROOT, "properties.jsonl"))]
checks, na = [], []
for p in props:
    pid = p["id"]
    c = CHECKS.get(pid)
    if not c:
        na.append({"property_id": pid, "reason": NOT_CLAIMED.get(pid, "check not built yet; the property is decidable by this technique (see DESIGN.md section 4) and will be claimed once its check is registered")})
        continue
    checks.append({
        "property_id": pid,
        "quick_cmd": "./check %s quick" % pid,
        "thorough_cmd": "./check %s thorough" % pid,
        "evidence_file": "/verif/evidence/%s.json" % pid,
        "replay_cmd_template": "./check --replay {path}",
        "engine": "rapid-harness",
        "level_claimed": {"category": "exploration", "text": c["text"], "design_ref": c["ref"]},
        "level_note": c["note"],
        "technique": c["technique"],
    })
m = {
    "version": 1,
    "setup_cmd": "./setup.sh",
    "hooks": {
        "guard": "verif",
        "enable": "go test -c -tags verif (the harness module builds /repo through a replace directive); no hook exists in /repo at present, the tag is reserved",
        "baseline_off_cmd": "cd /repo && go test -mod=mod -json -vet=off -count=1 -timeout 25m ./...",
        "source_commits": [],
        "add_only": True,
    },
    "engines": [{
        "name": "rapid-harness",
        "path": "/verif/harness",
        "serves_properties": sorted(CHECKS),
        "kind_free_text": "one Go test binary (pgregory.net/rapid v1.3.0, stateful generation + shrinking) that drives the real assembled JackalApp (fork mode on the uncommitted deliver state, or full ABCI with signed txs) and compares it with reference models; sharded by the python driver ./check which merges shard results into evidence",
    }],
    "checks": checks,
    "not_applicable": na,
    "notes": "All checks are property-based tests against explicit oracles; see DESIGN.md. known_findings.json lists recorded and fixed defects.",
}
json.dump(m, open(os.path.join(ROOT, "MANIFEST.json"), "w"), indent=1)
print("claimed:", sorted(CHECKS), "not claimed:", [x["property_id"] for x in na])
