package props

// C03 — reward blocks pay each proven prover its proportional share exactly once.

import (
	"fmt"
	"math/big"
	"sort"
	"strings"
	"testing"
	"time"

	sdk "github.com/cosmos/cosmos-sdk/types"
	"pgregory.net/rapid"

	storagetypes "github.com/jackalLabs/canine-chain/v4/x/storage/types"

	"verifharness/chain"
	"verifharness/ev"
)

type c03World struct {
	*storSim
	owner           chain.Account
	provs           []chain.Account
	registered      map[string]bool
	stopped         map[string]bool // pair keys that stopped proving
	nontrivial      bool
	secondDenomPaid bool
	rewardsPaid     int
	formsOpened     int
	shutdowns       int
}

func must2(r chain.Result) {
	if !r.OK() {
		panic("setup message failed: " + r.String())
	}
}

// fundGauge mirrors BuyStorage's gauge creation (payer -> module, NewGauge, module -> gauge account).
func (w *c03World) fundGauge(payer chain.Account, amount int64, dur time.Duration) {
	w.fundGauge2(payer, amount, 0, dur)
}

func (w *c03World) fundGauge2(payer chain.Account, amount, second int64, dur time.Duration) {
	if bal := w.c.App.BankKeeper.GetBalance(w.f.Ctx, payer.Addr, "ujkl").Amount; bal.LT(sdk.NewInt(amount)) {
		amount = bal.QuoRaw(2).Int64() // the payer cannot afford more
		if amount <= 0 {
			return
		}
	}
	coins := sdk.NewCoins(sdk.NewInt64Coin("ujkl", amount))
	if second > 0 { // a deposit in a second denomination in the same gauge (keeper API / genesis only; no message makes one)
		coins = coins.Add(sdk.NewInt64Coin("uatom", second))
	}
	ctx, write := w.f.Ctx.CacheContext()
	must(w.c.App.BankKeeper.SendCoinsFromAccountToModule(ctx, payer.Addr, storagetypes.ModuleName, coins))
	g := w.c.App.StorageKeeper.NewGauge(ctx, coins, ctx.BlockTime().Add(dur))
	acc, err := storagetypes.GetGaugeAccount(g)
	must(err)
	must(w.c.App.BankKeeper.SendCoinsFromModuleToAccount(ctx, storagetypes.ModuleName, acc, coins))
	write()
	w.logf("gauge funded with %s for %s", coins, dur)
}

func (w *c03World) rewardOracle(pre, post *rewardSnap) (string, string) {
	h := post.Height
	// expected status of every listed (prover, file) from the model's record of accepted proofs
	credit := map[string]*big.Int{} // counted prover -> sum of sizes
	missedByProv := map[string]int64{}
	nAll := new(big.Int)
	missedNotLast := false
	for _, fk := range sortedFileKeys(pre.Files) {
		fs := pre.Files[fk]
		nAll.Add(nAll, big.NewInt(fs.Size*int64(len(fs.Provers))))
		if len(fs.Provers) == 0 {
			continue // prover-less files: dropping them is not this property's subject
		}
		var wantAfter []string
		for i, p := range fs.Provers {
			pm, ok := w.pairs[p+"|"+fk]
			if !ok {
				return "C03/harness", fmt.Sprintf("chain lists prover %s on %s that the model never saw join", short(p), fk[:8])
			}
			_, met := obligationMet(h, fs.Start, fs.Window, pm.LastAccepted)
			if met {
				if credit[p] == nil {
					credit[p] = new(big.Int)
				}
				credit[p].Add(credit[p], big.NewInt(fs.Size))
				wantAfter = append(wantAfter, p)
			} else {
				missedByProv[p]++
				if i != len(fs.Provers)-1 {
					missedNotLast = true
				}
			}
		}
		got, exists := post.Files[fk]
		if !exists {
			return "C03/file-vanished", fmt.Sprintf("file %s with provers %v disappeared in the reward block at %d", fk[:8], shorts(fs.Provers), h)
		}
		if !sameSet(got.Provers, wantAfter) || hasDup(got.Provers) {
			return "C03/prover-list", fmt.Sprintf("reward block at %d: file %s (start %d, window %d) listed %v before; provers that met their obligation: %v; listed after: %v", h, fk[:8], fs.Start, fs.Window, shorts(fs.Provers), shorts(wantAfter), shorts(got.Provers))
		}
	}
	// burn counters
	for p, before := range pre.Burn {
		after, still := post.Burn[p]
		if !still {
			return "C03/provider-vanished", "provider record removed by a reward block"
		}
		if after-before != missedByProv[p] {
			return "C03/burn-count", fmt.Sprintf("reward block at %d: provider %s missed %d file(s), burn counter went %d -> %d", h, short(p), missedByProv[p], before, after)
		}
	}
	gaugeAddrs := map[string]bool{}
	for a := range pre.Gauges {
		gaugeAddrs[a] = true
	}
	for a := range post.Gauges {
		gaugeAddrs[a] = true
	}
	diffs := pre.Bal.Diff(post.Bal)
	for _, denom := range []string{"ujkl", "uatom"} {
		// released amount R = decrease of all gauge accounts, per denomination
		R := new(big.Int)
		delta := map[string]*big.Int{}
		for _, d := range diffs {
			if d.Denom != "ujkl" && d.Denom != "uatom" {
				return "C03/foreign-denom", "a balance in a denomination no gauge holds changed"
			}
			if d.Denom != denom {
				continue
			}
			delta[d.Addr] = d.Diff.BigInt()
			if gaugeAddrs[d.Addr] {
				if d.Diff.IsPositive() {
					return "C03/gauge-credited", "a gauge account gained funds in a reward block"
				}
				R.Sub(R, d.Diff.BigInt())
			}
		}
		nCounted := new(big.Int)
		for _, c := range credit {
			nCounted.Add(nCounted, c)
		}
		paid := new(big.Int)
		counted := make([]string, 0, len(credit))
		for p := range credit {
			counted = append(counted, p)
		}
		sort.Strings(counted)
		for a, d := range delta {
			if gaugeAddrs[a] || a == storageModuleAddr {
				continue
			}
			if credit[a] == nil {
				return "C03/uncounted-account-paid", fmt.Sprintf("reward block at %d: %s was not counted for any file but its balance changed by %s%s", h, short(a), d, denom)
			}
			if d.Sign() < 0 {
				return "C03/prover-debited", fmt.Sprintf("%s lost %s in a reward block", short(a), d)
			}
			paid.Add(paid, d)
		}
		if paid.Cmp(R) > 0 {
			return "C03/paid-exceeds-released", fmt.Sprintf("reward block at %d paid %s%s but only %s was released from gauges", h, paid, denom, R)
		}
		get := func(a string) *big.Int {
			if v, ok := delta[a]; ok {
				return v
			}
			return new(big.Int)
		}
		if R.Sign() > 0 && nCounted.Sign() > 0 {
			for _, p := range counted {
				lo := new(big.Int).Mul(R, credit[p])
				lo.Quo(lo, nAll)
				lo.Sub(lo, big.NewInt(1))
				hi := new(big.Int).Mul(R, credit[p])
				hi.Quo(hi, nCounted)
				hi.Add(hi, big.NewInt(1))
				if d := get(p); d.Cmp(lo) < 0 || d.Cmp(hi) > 0 {
					return "C03/share", fmt.Sprintf("reward block at %d released %s"+denom+"; prover %s counted for size %s (all listed %s, counted %s) received %s, outside [%s, %s]", h, R, short(p), credit[p], nAll, nCounted, d, lo, hi)
				}
			}
			for i := 0; i < len(counted); i++ {
				for j := i + 1; j < len(counted); j++ {
					p, q := counted[i], counted[j]
					x := new(big.Int).Mul(get(p), credit[q])
					y := new(big.Int).Mul(get(q), credit[p])
					x.Sub(x, y)
					bound := new(big.Int).Add(credit[p], credit[q])
					if x.CmpAbs(bound) > 0 {
						return "C03/proportionality", fmt.Sprintf("reward block at %d: %s (size %s) received %s, %s (size %s) received %s: not proportional", h, short(p), credit[p], get(p), short(q), credit[q], get(q))
					}
				}
			}
			w.rewardsPaid++
			if denom != "ujkl" {
				w.secondDenomPaid = true
			}
		}
		if len(counted) >= 2 && missedNotLast && R.Sign() > 0 {
			w.nontrivial = true
		}
	}
	return "", ""
}

func sortedFileKeys(m map[string]fileSnap) []string {
	out := make([]string, 0, len(m))
	for k := range m {
		out = append(out, k)
	}
	sort.Strings(out)
	return out
}

func shorts(a []string) []string {
	out := make([]string, len(a))
	for i, s := range a {
		out[i] = short(s)
	}
	return out
}

func sameSet(a, b []string) bool {
	x, y := append([]string{}, a...), append([]string{}, b...)
	sort.Strings(x)
	sort.Strings(y)
	return strings.Join(x, ",") == strings.Join(y, ",")
}

func hasDup(a []string) bool {
	seen := map[string]bool{}
	for _, s := range a {
		if seen[s] {
			return true
		}
		seen[s] = true
	}
	return false
}

// runSchedule drives the world for `blocks` blocks: listed pairs that have not stopped prove once per window.
func (w *c03World) runBlocks(blocks int, dt time.Duration) (string, string) {
	for i := 0; i < blocks; i++ {
		if sig, msg := w.nextBlock(dt, uint64(i)); sig != "" {
			return "C03/" + strings.TrimPrefix(sig, "C03/"), msg
		}
		h := w.f.Height()
		for _, k := range w.sortedPairKeys() {
			p := w.pairs[k]
			if w.stopped[k] {
				continue
			}
			// prove at the first block of each of the file's windows
			if (h-p.File.Start)%w.params().ProofWindow == 0 {
				for _, a := range w.provs {
					if a.Bech == p.Prover {
						w.prove(a, p.File)
					}
				}
			}
		}
	}
	return "", ""
}

func TestC03(t *testing.T) {
	rec := ev.For("C03")
	rec.Describe("fork-mode histories: 1-4 real files (1..8192 bytes at chunk size 1024, MaxProofs 2-5), 2-6 provers (some without a provider record; in a quarter of the worlds the files' owner is one of them) joining in generated order with real Merkle proofs, a generated subset of (prover,file) pairs at generated list positions stops proving, in a third of the worlds provers open attestation forms (form size set to 2 by governance) that nobody completes, gauges of 1..1e15 ujkl (a third of them with a second deposit of 1..1e12 uatom, small ones weighted up so that single shares round to zero) funded by the calls BuyStorage makes, reward blocks after youth with hour-scale block times, followed by further reward blocks on the state the first left behind. Oracle at each reward block from before/after snapshots: prover lists == before minus missed (sets, no duplicates); burn counters rise by exactly the number of missed files; per denomination each counted prover's payout within [floor(R*c/N_all)-1, floor(R*c/N_counted)+1]; pairwise proportionality; uncounted accounts unchanged; sum paid <= released. Non-trivial = >=2 counted provers, >=1 missed prover not in the last list position, R>0; distinct = distinct traces.",
		"'share' is accepted over either denominator (all listed at block start, as the code does, or counted only)",
		"prover-less files being dropped is not asserted here (C07/C17 cover it)")
	c := chain.New(chain.GenesisOpts{NumAccounts: 1, Balance: sdk.NewCoins(sdk.NewInt64Coin("ujkl", 3_000_000_000_000_000), sdk.NewInt64Coin("uatom", 3_000_000_000_000_000)),
		Faucet: sdk.NewCoins(sdk.NewInt64Coin("ujkl", 1_000_000_000_000_000))})
	defer c.Close()

	// ---- plain regression replay: provers [A,B,C] on one file, A stops, reward block after youth ----
	{
		w := newC03WorldFunded(c, 4, 3, 3, 0)
		f, r := w.postFile(w.owner, c02Content(3000), 3, 0)
		must2(r)
		for _, p := range w.provs {
			w.prove(p, f)
		}
		w.stopped[pairKey(w.provs[0].Bech, f)] = true
		w.fundGauge(w.owner, 1_000_000_000, 30*24*time.Hour)
		sig, msg := w.runBlocks(16, time.Hour)
		rec.Regress("C03/prover-list/remove-while-ranging", sig != "", msg+" | "+strings.Join(w.trace, " ; "))
	}
	if os_only_regress() {
		return
	}

	search(t, rec, "history", budget(1500, 320000), 0, func(rt *rapid.T) {
		W := rapid.Int64Range(3, 8).Draw(rt, "window")
		C := rapid.Int64Range(2, 6).Draw(rt, "check")
		nProv := rapid.IntRange(2, 6).Draw(rt, "provers")
		unreg := rapid.IntRange(0, 1).Draw(rt, "unregistered")
		w := newC03WorldFunded(c, W, C, nProv, unreg)
		w.proofType = rapid.SampledFrom([]int64{0, 0, 0, 1, 2, -1}).Draw(rt, "proofType")
		// in a quarter of the worlds the owner of the files keeps replicas of them itself, like any other prover
		if rapid.IntRange(0, 3).Draw(rt, "ownerProves") == 0 {
			if rapid.Bool().Draw(rt, "ownerRegistered") {
				must2(w.initProvider(w.owner, "https://owner.ownerdomain.net"))
				w.registered[w.owner.Bech] = true
			}
			w.provs = append(w.provs, w.owner)
			w.logf("the owner %s also acts as a prover", short(w.owner.Bech))
			rec.Count("worlds-where-the-owner-proves-its-own-files")
		}
		// in a third of the worlds governance has set small attestation forms (2 judges, both needed), so that provers can
		// open forms among the few providers here; nobody ever completes one, so a form changes nobody's obligations
		openForms := nProv-unreg >= 3 && rapid.IntRange(0, 2).Draw(rt, "smallAttestationForms") == 0
		if openForms {
			w.setParams(func(p *storagetypes.Params) { p.AttestFormSize, p.AttestMinToPass = 2, 2 })
		}
		nFiles := rapid.IntRange(1, 4).Draw(rt, "files")
		for i := 0; i < nFiles; i++ {
			size := rapid.OneOf(rapid.Int64Range(1, 8192), rapid.SampledFrom([]int64{1, 1024, 2048, 8192})).Draw(rt, "size")
			mp := rapid.Int64Range(2, 5).Draw(rt, "maxProofs")
			content := append(c02Content(size), byte(i)) // distinct merkle per file
			f, r := w.postFile(w.owner, content[:size], mp, 0)
			if i > 0 && !r.OK() {
				continue
			}
			if !r.OK() {
				rt.Fatalf("post failed: %v", r)
			}
			// provers join in a drawn order
			order := rapid.Permutation(w.provs).Draw(rt, "joinOrder")
			nJoin := rapid.IntRange(1, len(order)).Draw(rt, "joiners")
			for _, p := range order[:nJoin] {
				w.prove(p, f)
			}
			if rapid.Bool().Draw(rt, "gap") {
				if sig, msg := w.runBlocks(rapid.IntRange(1, 3).Draw(rt, "gapBlocks"), 6*time.Second); sig != "" {
					failf(rt, rec, sig, w.trace, "%s", msg)
				}
			}
		}
		// a subset of pairs stops proving (by list position)
		for _, k := range w.sortedPairKeys() {
			if rapid.IntRange(0, 9).Draw(rt, "stop") < 3 {
				w.stopped[k] = true
				w.logf("%s stops proving %s", short(w.pairs[k].Prover), w.pairs[k].File.id())
			}
		}
		// some registered provers close their provider record (getting their collateral back), some of them register again:
		// neither touches what they hold and what they have proven
		for _, p := range w.provs {
			if !w.registered[p.Bech] || rapid.IntRange(0, 5).Draw(rt, "shutsDown") != 0 {
				continue
			}
			r := w.f.Exec(newMsgShutdownProvider(p.Bech))
			w.logf("%s shuts its provider record down -> %s", short(p.Bech), r)
			if r.OK() {
				w.registered[p.Bech] = false
				w.shutdowns++
				if rapid.Bool().Draw(rt, "registersAgain") {
					if r2 := w.initProvider(p, "https://back."+strings.TrimPrefix(w.ipOf(p), "https://")); r2.OK() {
						w.registered[p.Bech] = true
					}
				}
			}
		}
		if openForms {
			for _, k := range w.sortedPairKeys() {
				pr := w.pairs[k]
				if !w.registered[pr.Prover] || rapid.IntRange(0, 2).Draw(rt, "opensForm") != 0 {
					continue
				}
				res := w.f.Exec(newMsgRequestAttestationForm(pr.Prover, pr.File.Merkle, pr.File.Owner, pr.File.Start))
				w.logf("%s requests an attestation form for %s -> %s", short(pr.Prover), pr.File.id(), res)
				if form, found := w.c.App.StorageKeeper.GetAttestationForm(w.f.Ctx, pr.Prover, pr.File.Merkle, pr.File.Owner, pr.File.Start); found && res.OK() {
					w.formsOpened++
					if rapid.Bool().Draw(rt, "oneJudgeSigns") { // one signature of the two needed: the form stays open
						j := form.Attestations[rapid.IntRange(0, len(form.Attestations)-1).Draw(rt, "judge")].Provider
						r2 := w.f.Exec(newMsgAttest(j, pr.Prover, pr.File.Merkle, pr.File.Owner, pr.File.Start))
						w.logf("%s signs it -> %s", short(j), r2)
					}
				}
			}
		}
		nG := rapid.IntRange(1, 3).Draw(rt, "gauges")
		for i := 0; i < nG; i++ {
			amt := rapid.OneOf(rapid.Int64Range(1, 1000), rapid.Int64Range(1, 1_000_000_000_000_000)).Draw(rt, "gaugeAmount")
			var second int64
			if rapid.IntRange(0, 2).Draw(rt, "secondDenom") == 0 {
				second = rapid.OneOf(rapid.Int64Range(1, 50), rapid.Int64Range(1, 1_000_000_000_000)).Draw(rt, "secondAmount")
			}
			w.fundGauge2(w.owner, amt, second, time.Duration(rapid.Int64Range(1, 60).Draw(rt, "gaugeDays"))*24*time.Hour)
		}
		blocks := int(W)*rapid.IntRange(2, 4).Draw(rt, "windows") + int(C)*2
		if sig, msg := w.runBlocks(blocks, rapid.SampledFrom([]time.Duration{6 * time.Second, time.Hour, 7 * time.Hour}).Draw(rt, "blockTime")); sig != "" {
			failf(rt, rec, sig, w.trace, "%s", msg)
		}
		// a file paid once whose paid period runs out while provers still prove it: nothing in the property ends a prover's
		// obligations or its pay at that height. The fourteen thousand blocks in between are not executed one by one; the
		// provers that keep proving do so right after the jump (which is what their state would be had they proved in
		// every window on the way), everybody else is seen as having missed.
		if rapid.IntRange(0, 3).Draw(rt, "payOnceFilePastItsExpiry") == 0 {
			f, r := w.postFile(w.owner, append([]byte{201}, c02Content(rapid.Int64Range(1, 3000).Draw(rt, "payOnceSize"))...), 3, w.f.Height()+14_401+rapid.Int64Range(0, 2*C).Draw(rt, "expiresIn"))
			if r.OK() {
				n := 0
				for _, p := range w.provs {
					if n < 3 && rapid.IntRange(0, 2).Draw(rt, "takesPayOnce") > 0 {
						w.prove(p, f)
						n++
					}
				}
				target := f.Expires - rapid.Int64Range(0, W).Draw(rt, "beforeExpiry")
				if target > w.f.Height() {
					w.f.SetBlock(target, w.f.Time().Add(time.Duration(target-w.f.Height())*6*time.Second))
					w.logf("jump to height %d (the pay-once file expires at %d)", target, f.Expires)
					for _, k := range w.sortedPairKeys() {
						if !w.stopped[k] {
							for _, a := range w.provs {
								if a.Bech == w.pairs[k].Prover {
									w.prove(a, w.pairs[k].File)
								}
							}
						}
					}
				}
				w.fundGauge(w.owner, 1_000_000_000, 30*24*time.Hour)
				if sig, msg := w.runBlocks(int(W)*2+int(C)*3, 6*time.Second); sig != "" {
					failf(rt, rec, sig, w.trace, "%s", msg)
				}
				rec.Count("histories-with-a-pay-once-file-past-its-expiry")
			}
		}
		if w.formsOpened > 0 {
			rec.Count("histories-with-open-attestation-forms")
		}
		if w.shutdowns > 0 {
			rec.Count("histories-with-a-prover-shutting-its-provider-record-down")
		}
		if w.rewardsPaid > 0 {
			rec.Count("histories-with-paying-reward-block")
			if w.secondDenomPaid {
				rec.Count("histories-paying-two-denominations")
			}
		}
		rec.Case(w.nontrivial, ev.Hash(w.trace...), func() interface{} { return w.trace })
	})
}

func newC03WorldFunded(c *chain.Chain, W, C int64, nProv, unregistered int) *c03World {
	// providers need 1000 ujkl collateral: fund them from the faucet before they register
	w := &c03World{storSim: newStorSim(c, 3), owner: chain.Acc(0), registered: map[string]bool{}, stopped: map[string]bool{}}
	w.setParams(func(p *storagetypes.Params) {
		p.ChunkSize, p.ProofWindow, p.CheckWindow, p.CollateralPrice = 1024, W, C, 1000
	})
	w.logf("params window=%d check=%d", W, C)
	must2(w.buyStorage(w.owner, w.owner.Bech, 30, 2_000_000_000, ""))
	for i := 0; i < nProv; i++ {
		p := chain.Acc(10 + i)
		w.provs = append(w.provs, p)
		if i >= nProv-unregistered {
			continue
		}
		w.f.Fund(p.Addr, sdk.NewCoins(sdk.NewInt64Coin("ujkl", 1000)))
		must2(w.initProvider(p, fmt.Sprintf("https://p%d.example%d.com", i, i)))
		w.registered[p.Bech] = true
	}
	w.onReward = w.rewardOracle
	return w
}

// ipOf is the address a prover of this world registered with.
func (w *c03World) ipOf(p chain.Account) string {
	if pr, found := w.c.App.StorageKeeper.GetProviders(w.f.Ctx, p.Bech); found {
		return pr.Ip
	}
	return fmt.Sprintf("https://p%d.example%d.com", p.Index, p.Index)
}
