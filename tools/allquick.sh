#!/bin/bash
# allquick.sh <tier> <seed...>: runs every check at each seed; prints one line per (check, seed).
tier=${1:-quick}; shift
cd "$(dirname "$0")/.."
for seed in "$@"; do
  for i in $(seq -w 1 20); do
    id=C$i
    out=$(VERIF_SEED=$seed ./check $id $tier 2>&1); rc=$?
    echo "seed=$seed $id rc=$rc $(echo "$out" | grep -c '^VIOLATION') violations $(echo "$out" | grep -c '^KNOWN-FINDING') known | $(echo "$out" | tail -1 | cut -c1-160)"
    if [ $rc -ne 0 ]; then echo "$out" | grep "VIOLATION\|INCONCLUSIVE\|  C" | head -5 | cut -c1-400; fi
  done
done
