package props

// C16 — registering a name charges the listed price and yields a live name for the term.

import (
	"fmt"
	"math"
	"math/big"
	"regexp"
	"strings"
	"testing"
	"time"

	sdk "github.com/cosmos/cosmos-sdk/types"
	"pgregory.net/rapid"

	rnstypes "github.com/jackalLabs/canine-chain/v4/x/rns/types"

	"verifharness/chain"
	"verifharness/ev"
)

var plainName = regexp.MustCompile(`^[A-Za-z0-9_-]+\.(jkl|ibc)$`)

type c16Step struct {
	Acc     int
	Name    string
	Years   int64
	Height  int64
	Balance int64 // top-up of the registrant before the step (0 = none)
}

type c16Out struct {
	sig, msg         string
	reRegAfterExpiry bool
	renewLive        bool
	ok               bool
}

// c16Exec runs one registration at a height and applies the oracle.
func c16Exec(w *rnsWorld, s c16Step) c16Out {
	acc := chain.Acc(s.Acc)
	if s.Height > w.f.Height() {
		w.f.SetBlock(s.Height, w.f.Time().Add(6*time.Second))
	}
	h := w.f.Height()
	// the registration handler lower-cases the name and drops blanks before it splits off the TLD: that spelling is the
	// name that gets registered, and its length is the length the price list is about
	key, okKey := canonKey(strings.ReplaceAll(s.Name, " ", ""))
	before := w.names()
	prev, found := before[key]
	msg := newMsgRegisterName(acc.Bech, s.Name, s.Years, "{}", false)
	balB := w.f.Snapshot()
	supB := w.f.Supply("ujkl")
	res := w.f.Exec(msg)
	balA := w.f.Snapshot()
	w.logf("register %q years=%d by acc%d (balance %s) -> %s", s.Name, s.Years, s.Acc, balB.Get(acc.Bech, "ujkl"), res)
	diff := balB.Diff(balA)
	out := c16Out{ok: res.OK()}
	if !supB.Equal(w.f.Supply("ujkl")) {
		return c16Out{sig: "C16/supply-changed", msg: "registration changed total supply"}
	}
	live := found && h < prev.Expires
	expired := !found || h > prev.Expires
	if !res.OK() {
		if len(diff) != 0 {
			return c16Out{sig: "C16/failed-registration-moved-funds", msg: fmt.Sprintf("failed registration changed balances: %v", diff)}
		}
		return out
	}
	if !okKey {
		return c16Out{sig: "C16/unparseable-name-registered", msg: "registration succeeded for a name the reference parser rejects: " + s.Name}
	}
	if live && prev.Value != acc.Bech {
		return c16Out{sig: "C16/live-name-registered-by-non-owner", msg: fmt.Sprintf("%s (live until %d, owner %s) registered by %s at height %d", key, prev.Expires, short(prev.Value), short(acc.Bech), h)}
	}
	namePart := key[:strings.LastIndex(key, ".")]
	tld := key[strings.LastIndex(key, ".")+1:]
	yearly := rnsYearly(len(namePart), tld)
	price := new(big.Int).Mul(big.NewInt(yearly), big.NewInt(s.Years))
	if price.Sign() < 0 {
		return c16Out{sig: "C16/negative-term-accepted", msg: fmt.Sprintf("registration for %d years succeeded", s.Years)}
	}
	// balances: registrant -price, POL +price, nothing else (rns module 0)
	want := map[string]*big.Int{}
	if price.Sign() != 0 {
		want[acc.Bech] = new(big.Int).Neg(price)
		want[polAddr] = price
	}
	got := map[string]*big.Int{}
	for _, d := range diff {
		if d.Denom != "ujkl" {
			return c16Out{sig: "C16/foreign-denom", msg: fmt.Sprintf("%s changed in %s", d.Addr, d.Denom)}
		}
		got[d.Addr] = d.Diff.BigInt()
	}
	for a, v := range want {
		g := got[a]
		if g == nil {
			g = new(big.Int)
		}
		if g.Cmp(v) != 0 {
			who := "registrant"
			if a == polAddr {
				who = "protocol-liquidity account"
			}
			return c16Out{sig: "C16/price", msg: fmt.Sprintf("registering %s (%d chars, .%s) for %d years: %s balance changed by %s, expected %s (= %d x %d)", key, len(namePart), tld, s.Years, who, g, v, s.Years, yearly)}
		}
	}
	for a, g := range got {
		if want[a] == nil && g.Sign() != 0 {
			return c16Out{sig: "C16/other-account-changed", msg: fmt.Sprintf("account %s changed by %s", short(a), g)}
		}
	}
	after, ok := w.names()[key]
	if !ok || after.Value != acc.Bech {
		return c16Out{sig: "C16/does-not-resolve", msg: fmt.Sprintf("after registration %s resolves to %q", key, after.Value)}
	}
	if r, err := w.c.App.RnsKeeper.Resolve(w.f.Ctx, key); err != nil || r.String() != acc.Bech {
		return c16Out{sig: "C16/does-not-resolve", msg: fmt.Sprintf("Resolve(%s) = %v, %v", key, r, err)}
	}
	// ... and under the spelling the registrant typed, where that is a plain "Label.tld" (letters in either case)
	if plainName.MatchString(s.Name) {
		if r, err := w.c.App.RnsKeeper.Resolve(w.f.Ctx, s.Name); err != nil || r.String() != acc.Bech {
			return c16Out{sig: "C16/does-not-resolve", msg: fmt.Sprintf("registered as %q, Resolve(%q) = %v, %v", s.Name, s.Name, r, err)}
		}
	}
	term := new(big.Int).Mul(big.NewInt(s.Years), big.NewInt(rnsYearBlocks))
	exp := big.NewInt(after.Expires)
	switch {
	case live:
		out.renewLive = true
		wantExp := new(big.Int).Add(big.NewInt(prev.Expires), term)
		if exp.Cmp(wantExp) != 0 {
			return c16Out{sig: "C16/renewal-expiry", msg: fmt.Sprintf("renewal of live %s (expires %d) for %d years at height %d gives expiry %d, expected %s", key, prev.Expires, s.Years, h, after.Expires, wantExp)}
		}
	case expired:
		if found {
			out.reRegAfterExpiry = true
		}
		minExp := new(big.Int).Add(big.NewInt(h), term)
		if exp.Cmp(minExp) < 0 {
			shape := "fresh"
			if found && prev.Value == acc.Bech {
				shape = "expired-same-owner"
			} else if found {
				shape = "expired-other-owner"
			}
			return c16Out{sig: "C16/term-too-short/" + shape, msg: fmt.Sprintf("%s registered for %d years at height %d (previous expiry %d, found=%v) expires at %d < height + term = %s", key, s.Years, h, prev.Expires, found, after.Expires, minExp)}
		}
	default: // h == prev.Expires: either reading accepted
		a := new(big.Int).Add(big.NewInt(prev.Expires), term)
		if exp.Cmp(a) < 0 {
			return c16Out{sig: "C16/term-too-short/at-expiry", msg: fmt.Sprintf("expiry %d below %s", after.Expires, a)}
		}
	}
	return out
}

// c16Init sends the free MsgInit of a not yet initialised account: it registers a generated name for the
// sender, and like every registration it must leave live names of other accounts alone.
func c16Init(w *rnsWorld, acc chain.Account) c16Out {
	h := w.f.Height()
	before := w.names()
	res := w.f.Exec(&rnstypes.MsgInit{Creator: acc.Bech})
	after := w.names()
	w.logf("init by %s -> %s", short(acc.Bech), res)
	for _, key := range sortedNameKeys(before) {
		b := before[key]
		if h < b.Expires && b.Value != acc.Bech && after[key] != b {
			return c16Out{sig: "C16/live-name-registered-by-non-owner", msg: fmt.Sprintf("%s (live until %d, owner %s) was taken or rewritten by the free initial registration of %s at height %d: now held by %s until %d", key, b.Expires, short(b.Value), short(acc.Bech), h, short(after[key].Value), after[key].Expires)}
		}
	}
	return c16Out{ok: res.OK()}
}

func genC16Name(rt *rapid.T) string {
	n := rapid.IntRange(1, 8).Draw(rt, "len")
	name := rapid.StringMatching(fmt.Sprintf(`[A-Za-z0-9_-]{%d}`, n)).Draw(rt, "name")
	if rapid.IntRange(0, 3).Draw(rt, "small") > 0 { // small alphabet: collisions between steps are wanted
		name = strings.Repeat("a", n)
		if rapid.Bool().Draw(rt, "upper") {
			name = strings.ToUpper(name)
		}
	}
	if rapid.IntRange(0, 7).Draw(rt, "tldLetters") == 0 { // a name part that contains the letters of a TLD (its own or the other one)
		name = rapid.SampledFrom([]string{"superjkl", "myibc", "jklabs", "ibcx", "jkl", "ibc", "ajkl", "jkljkl", "a.jkl", "xibcjkl", "JKLabs", "ujkl", "jkl1vault", "jkl1", "jkl1-x", "JKL1q"}).Draw(rt, "tldName") // the last ones begin like an address of this chain
		n = len(name)
	}
	tld := rapid.SampledFrom([]string{"jkl", "ibc"}).Draw(rt, "tld")
	sep := rapid.SampledFrom([]string{".", ".", ".", "x", " ", "_"}).Draw(rt, "sep")
	if rapid.IntRange(0, 9).Draw(rt, "innerBlank") == 0 && n >= 2 { // a blank inside the name part
		name = name[:1] + " " + name[1:]
	}
	return name + sep + tld
}

func genC16Years(rt *rapid.T, name string) int64 {
	key, _ := canonKey(name)
	yearly := int64(10_000_000)
	if key != "" {
		yearly = rnsYearly(len(key)-4, key[len(key)-3:])
	}
	wrap := new(big.Int).Lsh(big.NewInt(1), 64)
	wrap.Quo(wrap, big.NewInt(yearly))
	wrapYears := wrap.Int64() + 1 // price*years wraps to a small positive int64
	return rapid.OneOf(
		rapid.SampledFrom([]int64{1, 1, 1, 2, 2, 3, 5, 100}),
		rapid.SampledFrom([]int64{0, -1, -3, math.MinInt64, math.MaxInt64, math.MaxInt64 / yearly, math.MaxInt64/yearly + 1, wrapYears, wrapYears + 1, math.MaxInt64 / rnsYearBlocks, math.MaxInt64/rnsYearBlocks + 1}),
	).Draw(rt, "years")
}

func TestC16(t *testing.T) {
	rec := ev.For("C16")
	rec.Describe("fork-mode histories of 1-6 RegisterName messages: names of 1-8 chars over [A-Za-z0-9_-] (mostly from a small alphabet so steps collide), both TLDs, year counts from {1,2,3,5,100} and arithmetic boundary values (0, negative, around MaxInt64/price, values making price*years wrap), registrants with balances around the price, heights before / at / long after the previous expiry, re-registration by the same or another account; interleaved with record traffic of other holders (AddRecord / Update / DelRecord on their own names with the label of the name registered last: that name must stay with its registrant, expiry untouched) and with free initial registrations (MsgInit, several per block) at heights whose generated candidate names are partly held by paying registrants. Oracle: exact big.Int price to POL, name resolves, expiry >= height + Y*5484530 (renewal of a live name: exactly old + Y*5484530), live names refused to non-owners. Non-trivial = a re-registration at a height past the previous expiry or a renewal of a live name; distinct = distinct traces.",
		"price table (10/50 JKL base, x24/x12/x6/x3 for 1-4 characters) is copied into the oracle as 'the listed price'",
		"height == previous Expires is accepted under either reading")
	c := chain.New(chain.GenesisOpts{NumAccounts: 3, Balance: sdk.NewCoins(sdk.NewInt64Coin("ujkl", 1_000_000_000_000)),
		Faucet: sdk.NewCoins(sdk.NewInt64Coin("ujkl", 1_000_000_000_000_000))})
	defer c.Close()

	// ---- plain regression replays ----
	regress := func(sig string, steps []c16Step) {
		w := newRnsWorld(c, 3)
		for _, s := range steps {
			if o := c16Exec(w, s); o.sig != "" {
				rec.Regress(sig, true, o.msg+" | history: "+strings.Join(w.trace, " ; "))
				return
			}
		}
		rec.Regress(sig, false, "")
	}
	regress("C16/term-too-short/expired-other-owner", []c16Step{{0, "abcde.jkl", 1, 10, 0}, {1, "abcde.jkl", 1, 13_000_000, 0}})
	regress("C16/term-too-short/expired-same-owner", []c16Step{{0, "abcde.jkl", 1, 10, 0}, {0, "abcde.jkl", 1, 13_000_000, 0}})
	regress("C16/price/years-overflow", []c16Step{{0, "abcde.jkl", 1844674407371, 10, 0}})
	if os_only_regress() {
		return
	}

	search(t, rec, "history", budget(4000, 1000000), 0, func(rt *rapid.T) {
		w := newRnsWorld(c, 3)
		n := rapid.IntRange(1, 6).Draw(rt, "steps")
		nt := false
		var lastName string
		fresh := 10 // accounts 10.. have not sent MsgInit yet
		for i := 0; i < n; i++ {
			if rapid.IntRange(0, 4).Draw(rt, "initScenario") == 0 {
				// free initial registrations (generated names that depend on the height only), some of the candidate
				// names being held by paying registrants already, several initialisations in the same block
				h := w.f.Height()
				for k := 0; k < 4; k++ {
					if rapid.Bool().Draw(rt, fmt.Sprintf("candidateTaken%d", k)) {
						if o := c16Exec(w, c16Step{Acc: rapid.IntRange(0, 2).Draw(rt, "victim"), Name: rnstypes.MakeName(int(h)+k, h) + ".jkl", Years: 1, Height: h}); o.sig != "" {
							failf(rt, rec, o.sig, w.trace, "%s", o.msg)
						}
					}
				}
				for k, m := 0, rapid.IntRange(1, 3).Draw(rt, "inits"); k < m; k++ {
					if o := c16Init(w, chain.Acc(fresh)); o.sig != "" {
						failf(rt, rec, o.sig, w.trace, "%s", o.msg)
					} else if o.ok {
						rec.Count("ok:init")
						// the holder of a free name may pay for it while it is live: a renewal like any other
						if rapid.Bool().Draw(rt, "payForFreeName") {
							acc := chain.Acc(fresh)
							for _, key := range sortedNameKeys(w.names()) {
								if w.names()[key].Value != acc.Bech {
									continue
								}
								w.f.Fund(acc.Addr, sdk.NewCoins(sdk.NewInt64Coin("ujkl", 1_000_000_000)))
								if o := c16Exec(w, c16Step{Acc: fresh, Name: key, Years: rapid.Int64Range(1, 3).Draw(rt, "yearsForFreeName"), Height: w.f.Height() + rapid.SampledFrom([]int64{0, 1, 100_000, 5_000_000}).Draw(rt, "later")}); o.sig != "" {
									failf(rt, rec, o.sig, w.trace, "%s", o.msg)
								} else if o.renewLive {
									rec.Count("renewal-of-live-free-name")
									nt = true
								}
								break
							}
						}
					} else {
						rec.Count("rejected:init")
					}
					fresh++
				}
				continue
			}
			if lastName != "" && rapid.IntRange(0, 3).Draw(rt, "standingBid") == 0 {
				// somebody has an open bid on the name (escrowed in the name-service module account): a registration must
				// neither touch it nor be paid from it
				bidder := chain.Acc(rapid.IntRange(0, 2).Draw(rt, "bidder"))
				coin := sdk.NewInt64Coin("ujkl", rapid.Int64Range(1, 50_000_000).Draw(rt, "bidAmount"))
				r := w.f.Exec(rnstypes.NewMsgBid(bidder.Bech, lastName, coin))
				w.logf("bid %s on %q by acc%d -> %s", coin, lastName, bidder.Index, r)
				if r.OK() {
					rec.Count("ok:bid")
				}
			}
			if lastName != "" && rapid.IntRange(0, 3).Draw(rt, "listed") == 0 {
				// the current holder offers the name for sale: that is an offer to buy it at the asking price through
				// MsgBuy, not a licence for anybody to register it
				if key, ok := canonKey(strings.ReplaceAll(lastName, " ", "")); ok {
					if n, found := w.names()[key]; found {
						for k := 0; k < 3; k++ {
							if chain.Acc(k).Bech == n.Value {
								r := w.f.Exec(newMsgList(n.Value, key, sdk.NewInt64Coin("ujkl", rapid.Int64Range(1, 1_000_000_000).Draw(rt, "askingPrice"))))
								w.logf("list %s by acc%d -> %s", key, k, r)
								if r.OK() {
									rec.Count("ok:list")
								}
							}
						}
					}
				}
			}
			if lastName != "" && rapid.IntRange(0, 3).Draw(rt, "recordTraffic") == 0 {
				// another holder files a record under its OWN name whose label equals the label of the name registered last,
				// rewrites it and removes it again: records live inside their parent, so the registered name must go on
				// resolving to its registrant with its expiry untouched ("for the term")
				if key, ok := canonKey(strings.ReplaceAll(lastName, " ", "")); ok {
					if victim, found := w.names()[key]; found && w.f.Height() < victim.Expires {
						other := chain.Acc((rapid.IntRange(0, 2).Draw(rt, "recordHolder")))
						own := fmt.Sprintf("holder%d.%s", other.Index, key[len(key)-3:])
						if _, has := w.names()[own]; !has {
							w.f.Exec(newMsgRegisterName(other.Bech, own, 1, "{}", false))
						}
						label := key[:len(key)-4]
						before := w.names()
						for _, m := range []sdk.Msg{
							rnstypes.NewMsgAddRecord(other.Bech, own, label, other.Bech, `{"r":1}`),
							rnstypes.NewMsgUpdate(other.Bech, label+"."+own, `{"r":2}`),
							rnstypes.NewMsgDelRecord(other.Bech, label+"."+own),
						} {
							if rapid.IntRange(0, 3).Draw(rt, "skipRecordMsg") == 0 {
								continue
							}
							r := w.f.Exec(m)
							w.logf("%s by acc%d -> %s", msgSummary(m), other.Index, r)
						}
						after := w.names()
						for _, k := range sortedNameKeys(before) {
							b := before[k]
							if k == own || w.f.Height() >= b.Expires {
								continue
							}
							if a, still := after[k]; !still || a.Value != b.Value || a.Expires != b.Expires {
								failf(rt, rec, "C16/registered-name-lost-to-record-traffic", w.trace, "%s (registered to %s until %d) was changed by record messages of acc%d on its own name %s: now held by %q until %d", k, short(b.Value), b.Expires, other.Index, own, short(a.Value), a.Expires)
							}
						}
						rec.Count("record-traffic")
					}
				}
			}
			var s c16Step
			s.Acc = rapid.IntRange(0, 2).Draw(rt, "acc")
			if lastName != "" && rapid.IntRange(0, 9).Draw(rt, "sameName") < 7 {
				s.Name = lastName
				if rapid.IntRange(0, 4).Draw(rt, "respell") == 0 {
					s.Name = strings.ToUpper(s.Name[:len(s.Name)-4]) + s.Name[len(s.Name)-4:]
				}
			} else {
				s.Name = genC16Name(rt)
			}
			lastName = s.Name
			s.Years = genC16Years(rt, s.Name)
			// height: stay, small step, or relative to the expiry of the addressed name
			h := w.f.Height()
			key, _ := canonKey(s.Name)
			if prev, ok := w.names()[key]; ok && rapid.IntRange(0, 9).Draw(rt, "toExpiry") < 6 && prev.Expires > 0 && prev.Expires < math.MaxInt64/4 {
				h2 := prev.Expires + rapid.SampledFrom([]int64{-rnsYearBlocks, -2, -1, 0, 1, 2, 1000, rnsYearBlocks, 3 * rnsYearBlocks}).Draw(rt, "dExpiry")
				if h2 > h {
					h = h2
				}
			} else {
				h += rapid.Int64Range(0, 50).Draw(rt, "dh")
			}
			s.Height = h
			// sometimes leave the registrant with a balance around the price
			if rapid.IntRange(0, 9).Draw(rt, "poor") == 0 {
				acc := chain.Acc(s.Acc)
				bal := w.c.App.BankKeeper.GetBalance(w.f.Ctx, acc.Addr, "ujkl")
				keep := rapid.SampledFrom([]int64{0, 1, 9_999_999, 10_000_000, 10_000_001}).Draw(rt, "keep")
				if bal.Amount.GT(sdk.NewInt(keep)) {
					drain := sdk.NewCoins(sdk.NewCoin("ujkl", bal.Amount.SubRaw(keep)))
					must(w.c.App.BankKeeper.SendCoins(w.f.Ctx, acc.Addr, chain.Acc(chain.AccFaucet).Addr, drain))
					w.logf("acc%d left with %d ujkl", s.Acc, keep)
				}
			}
			o := c16Exec(w, s)
			if o.sig != "" {
				failf(rt, rec, o.sig, w.trace, "%s", o.msg)
			}
			if o.ok {
				rec.Count("ok")
			} else {
				rec.Count("rejected")
			}
			if o.reRegAfterExpiry {
				rec.Count("re-registration-after-expiry")
				nt = true
			}
			if o.renewLive {
				rec.Count("renewal-of-live-name")
				nt = true
			}
		}
		rec.Case(nt, ev.Hash(w.trace...), func() interface{} { return w.trace })
	})
}
