package props

// Storage simulation engine shared by C01, C03, C07, C14 and C17: block stepping with
// reward-block snapshots, and a model of which (prover, file) pairs exist and when their
// last proof was accepted.  The model is fed only by observed message responses.

import (
	"fmt"
	"sort"
	"strconv"
	"strings"
	"time"

	storagetypes "github.com/jackalLabs/canine-chain/v4/x/storage/types"

	"verifharness/chain"
)

type simPair struct {
	Prover       string
	File         *sFile
	LastAccepted int64 // height of the last accepted valid proof / completed attestation
	Joined       int64
}

type fileSnap struct {
	Key       string
	Size      int64
	MaxProofs int64
	Start     int64
	Window    int64
	Expires   int64
	Owner     string
	Provers   []string // in list order
}

type rewardSnap struct {
	Height int64
	Files  map[string]fileSnap
	Burn   map[string]int64
	Bal    chain.Balances
	Gauges map[string]storagetypes.PaymentGauge
}

type storSim struct {
	*storWorld
	pairs map[string]*simPair
	// hooks
	onReward func(pre, post *rewardSnap) (string, string)
}

func newStorSim(c *chain.Chain, height int64) *storSim {
	return &storSim{storWorld: newStorWorld(c, height), pairs: map[string]*simPair{}}
}

func fileKey(merkle []byte, owner string, start int64) string {
	return fmt.Sprintf("%x/%s/%d", merkle, owner, start)
}

func (f *sFile) key() string { return fileKey(f.Merkle, f.Owner, f.Start) }

func pairKey(prover string, f *sFile) string { return prover + "|" + f.key() }

func (s *storSim) snapshot() *rewardSnap {
	snap := &rewardSnap{Height: s.f.Height(), Files: map[string]fileSnap{}, Burn: map[string]int64{}, Bal: s.f.Snapshot(), Gauges: map[string]storagetypes.PaymentGauge{}}
	for _, uf := range s.c.App.StorageKeeper.GetAllFileByMerkle(s.f.Ctx) {
		fs := fileSnap{Key: fileKey(uf.Merkle, uf.Owner, uf.Start), Size: uf.FileSize, MaxProofs: uf.MaxProofs, Start: uf.Start, Window: uf.ProofInterval, Expires: uf.Expires, Owner: uf.Owner}
		for _, pk := range uf.Proofs {
			fs.Provers = append(fs.Provers, strings.SplitN(pk, "/", 2)[0])
		}
		snap.Files[fs.Key] = fs
	}
	for _, p := range s.c.App.StorageKeeper.GetAllProviders(s.f.Ctx) {
		n, err := strconv.ParseInt(p.BurnedContracts, 10, 64)
		if err != nil {
			n = -1
		}
		snap.Burn[p.Address] = n
	}
	for _, g := range s.c.App.StorageKeeper.GetAllPaymentGauges(s.f.Ctx) {
		snap.Gauges[gaugeAddr(g)] = g
	}
	return snap
}

// nextBlock moves one block ahead (BeginBlock of the storage module included).  At reward
// heights the onReward hook sees the state before and after, then the model is synced with
// the chain's lists.
func (s *storSim) nextBlock(dt time.Duration, gas uint64) (string, string) {
	h := s.f.Height() + 1
	s.f.SetBlock(h, s.f.Time().Add(dt))
	s.f.SetBlockGas(gas)
	reward := s.isRewardHeight(h)
	var pre *rewardSnap
	if reward {
		pre = s.snapshot()
	}
	if bb := s.f.BeginCustom(false, true); bb.Panic != nil {
		return "panic", fmt.Sprintf("storage BeginBlocker panicked at height %d: %v", h, bb.Panic)
	}
	if reward {
		post := s.snapshot()
		s.logf("reward block (+%s)", dt)
		var sig, msg string
		if s.onReward != nil {
			sig, msg = s.onReward(pre, post)
		}
		s.syncPairs(post)
		return sig, msg
	}
	return "", ""
}

// syncPairs drops model pairs the chain no longer lists.
func (s *storSim) syncPairs(snap *rewardSnap) {
	for k, p := range s.pairs {
		fs, ok := snap.Files[p.File.key()]
		listed := false
		if ok {
			for _, a := range fs.Provers {
				if a == p.Prover {
					listed = true
				}
			}
		}
		if !listed {
			delete(s.pairs, k)
		}
	}
}

// prove submits the honest proof and records acceptance in the model.
func (s *storSim) prove(prover chain.Account, f *sFile) bool {
	ok, _, _ := s.honestProve(prover, f)
	if ok {
		k := pairKey(prover.Bech, f)
		if p, had := s.pairs[k]; had {
			p.LastAccepted = s.f.Height()
		} else {
			s.pairs[k] = &simPair{Prover: prover.Bech, File: f, LastAccepted: s.f.Height(), Joined: s.f.Height()}
		}
	}
	return ok
}

func (s *storSim) sortedPairKeys() []string {
	out := make([]string, 0, len(s.pairs))
	for k := range s.pairs {
		out = append(out, k)
	}
	sort.Strings(out)
	return out
}

// obligationMet is the property's rule for one listed prover of a file at a reward height.
func obligationMet(h, start, window, lastAccepted int64) (young, met bool) {
	if start+window >= h {
		return true, true
	}
	cur := h - ((h - start) % window) // start of the current proof window
	return false, lastAccepted >= cur-window
}
