package chain

import (
	"fmt"
	"testing"
	"time"

	sdk "github.com/cosmos/cosmos-sdk/types"
	storagetypes "github.com/jackalLabs/canine-chain/v4/x/storage/types"
)

func TestSmoke(t *testing.T) {
	t0 := time.Now()
	c := New(GenesisOpts{NumAccounts: 4, Balance: sdk.NewCoins(sdk.NewInt64Coin(Denom, 1_000_000_000_000)), Faucet: sdk.NewCoins(sdk.NewInt64Coin(Denom, 1_000_000_000_000_000))})
	defer c.Close()
	fmt.Println("new:", time.Since(t0))
	f := c.Fork(1, GenesisTime.Add(6*time.Second))
	before := f.Snapshot()
	r := f.Exec(&storagetypes.MsgBuyStorage{Creator: Acc(0).Bech, ForAddress: Acc(0).Bech, DurationDays: 30, Bytes: 3_000_000_000_000, PaymentDenom: Denom})
	fmt.Println(r.String())
	for _, d := range before.Diff(f.Snapshot()) {
		fmt.Println(d.Addr, d.Denom, d.Diff)
	}
	bb := f.BeginCustom(true, true)
	fmt.Println("bb", bb.Panic)
	fmt.Println(f.Supply(Denom))
	t1 := time.Now()
	for i := 0; i < 1000; i++ {
		g := c.Fork(1, GenesisTime)
		g.Exec(&storagetypes.MsgBuyStorage{Creator: Acc(0).Bech, ForAddress: Acc(0).Bech, DurationDays: 30, Bytes: 3_000_000_000_000, PaymentDenom: Denom})
	}
	fmt.Println("1000 forks+buy:", time.Since(t1))
}
