#!/bin/bash
# confirm_missing.sh <k> <n> (list of seeded dirs in /tmp/wt/cf_list.txt): for every seeded/<id>/ without full_suite.log (every n-th, offset k) confirm in a
# scratch worktree: the package holding the demo passes without the change and fails with it, the tree builds,
# and `go test ./...` without the demo shows no failure beyond the ones the unchanged tree has.
export GOFLAGS=-mod=mod GOPROXY=off GOSUMDB=off GOTOOLCHAIN=local
k=$1; n=$2; i=0
wt=/tmp/wt/cf$k
for d in $(cat /tmp/wt/cf_list.txt); do
  i=$((i+1)); [ $((i % n)) -eq $k ] || continue
  [ -f $d/full_suite.log ] && continue
  name=$(basename $d)
  demo=$(ls $d | grep '_test.go$' | head -1)
  pkg=$(grep -o 'go test[^|`]*' $d/notes.md | grep -o '\./x/[a-z]*/[a-z]*' | head -1)
  [ -z "$pkg" ] && pkg=$(grep -o '\./x/[a-z]*/[a-z]*' $d/notes.md | head -1)
  mp=$(jq -r '.demo_pkg // ""' $d/meta.json); [ -n "$mp" ] && pkg=$mp
  run=$(jq -r '.demo_run // "."' $d/meta.json)
  base=$(jq -r .base_commit $d/meta.json)
  rm -rf $wt; git -C /repo worktree prune
  git -C /repo worktree add --detach -q $wt HEAD
  if ! git -C $wt apply --check $d/patch.diff 2>/dev/null || [ "$(jq -r '.confirm_at // ""' $d/meta.json)" = base ]; then
    git -C /repo worktree remove --force $wt; git -C /repo worktree add --detach -q $wt $base
  fi
  {
    echo "== $name at $(git -C $wt rev-parse --short HEAD), demo $demo in $pkg"
    cd $wt
    mkdir -p $pkg; cp $d/$demo $pkg/
    echo "== package with demo, WITHOUT change (expect ok)"
    go test -vet=off -count=1 -run "$run" $pkg 2>&1 | tail -3
    git apply $d/patch.diff && go build ./... && echo "patch applied, build ok"
    echo "== package with demo, WITH change (expect FAIL)"
    go test -vet=off -count=1 -run "$run" $pkg 2>&1 | grep -v '^\s*$' | tail -12
    rm -f $pkg/$demo; [ -n "$mp" ] && rmdir $pkg 2>/dev/null
    echo "== full suite with change, without demo: non-ok lines"
    go test -vet=off -count=1 -timeout 25m ./... 2>&1 | grep -v "no test files" | grep -v "^ok" | grep -E "^(FAIL|---|panic|ok)" | head -40
    echo "== (end)"
  } > $d/full_suite.log.tmp 2>&1
  mv $d/full_suite.log.tmp $d/full_suite.log
  cd /; git -C /repo worktree remove --force $wt
  echo "$name done"
done
