package props

// C10 — file-tree entries change only by their owner or, for posts, the folder's editors.

import (
	"encoding/json"
	"fmt"
	"sort"
	"strings"
	"testing"
	"time"

	sdk "github.com/cosmos/cosmos-sdk/types"
	"pgregory.net/rapid"

	fttypes "github.com/jackalLabs/canine-chain/v4/x/filetree/types"

	"verifharness/chain"
	"verifharness/ev"
)

// ftEntry is the reference model of one file-tree entry.  Account is stored explicitly:
// the model never re-derives ownership from the stored owner hash.
type ftEntry struct {
	Address, Owner, Account              string
	Contents, Viewers, Editors, Tracking string
}

type c10World struct {
	rolledBack             int
	c                      *chain.Chain
	f                      *chain.Fork
	accs                   []chain.Account
	model                  map[string]*ftEntry
	trace                  []string
	unauthorisedOnExisting bool
	editorPost             bool
}

func ftOwnerAddr(address, account string) string { return hexsha("o" + address + account) }
func ftEditorID(tn, user string) string          { return hexsha("e" + tn + user) }
func ftViewerID(tn, user string) string          { return hexsha("v" + tn + user) }
func ftKey(address, owner string) string         { return address + "|" + owner }

func (w *c10World) logf(format string, a ...interface{}) {
	w.trace = append(w.trace, fmt.Sprintf(format, a...))
}

func parseACL(s string) (map[string]string, bool) {
	m := map[string]string{}
	if err := json.Unmarshal([]byte(s), &m); err != nil {
		return nil, false
	}
	return m, true
}

func aclEqual(a, b string) bool {
	ma, oka := parseACL(a)
	mb, okb := parseACL(b)
	if !oka || !okb {
		return a == b
	}
	if len(ma) != len(mb) {
		return false
	}
	for k, v := range ma {
		if w, ok := mb[k]; !ok || w != v {
			return false
		}
	}
	return true
}

// compare the complete Files store with the model.
func (w *c10World) compare(what string) (string, string) {
	got := map[string]fttypes.Files{}
	for _, f := range w.c.App.FileTreeKeeper.GetAllFiles(w.f.Ctx) {
		got[ftKey(f.Address, f.Owner)] = f
	}
	keys := map[string]bool{}
	for k := range got {
		keys[k] = true
	}
	for k := range w.model {
		keys[k] = true
	}
	for _, k := range sortedStrings(keys) {
		g, okG := got[k]
		m, okM := w.model[k]
		switch {
		case okG && !okM:
			return "C10/unexpected-entry", fmt.Sprintf("after %s the tree holds an entry at %s owned by %s that the model does not have", what, abbrev(g.Address), abbrev(g.Owner))
		case !okG && okM:
			return "C10/entry-missing", fmt.Sprintf("after %s the entry at %s (account %s) is gone", what, abbrev(m.Address), abbrev(m.Account))
		}
		if g.Contents != m.Contents || g.TrackingNumber != m.Tracking || !aclEqual(g.ViewingAccess, m.Viewers) || !aclEqual(g.EditAccess, m.Editors) {
			return "C10/entry-differs", fmt.Sprintf("after %s the entry at %s differs from the model: chain {contents:%q viewers:%s editors:%s tn:%q} model {contents:%q viewers:%s editors:%s tn:%q}", what, abbrev(g.Address), g.Contents, abbrev(g.ViewingAccess), abbrev(g.EditAccess), g.TrackingNumber, m.Contents, abbrev(m.Viewers), abbrev(m.Editors), m.Tracking)
		}
	}
	return "", ""
}

func abbrev(s string) string {
	if len(s) > 14 {
		return s[:10] + "…" + fmt.Sprint(len(s))
	}
	return s
}

type ftVerdict int

const (
	mustFail ftVerdict = iota // unauthorised or impossible: an error is required
	mayDo                     // authorised: either fails without effect or succeeds with exactly the effect
)

// apply executes msg and checks it against the verdict; effect mutates the model on success.
func (w *c10World) apply(what string, msg sdk.Msg, v ftVerdict, onExisting bool, effect func()) (string, string) {
	res := w.f.Exec(msg)
	w.logf("%s -> %s", what, res)
	if v == mustFail {
		if res.OK() {
			return "C10/unauthorised-message-succeeded", fmt.Sprintf("%s succeeded although the signer lacks the right (or the target does not exist)", what)
		}
		if onExisting {
			w.unauthorisedOnExisting = true
		}
		return w.compare(what)
	}
	if res.OK() {
		effect()
	}
	return w.compare(what)
}

func (w *c10World) isOwner(e *ftEntry, signer string) bool { return hexsha(signer) == e.Account }

func splitIDs(s string) []string { return strings.Split(s, ",") }

func newC10World(c *chain.Chain) *c10World {
	w := &c10World{c: c, f: c.Fork(5, chain.GenesisTime.Add(time.Minute)), model: map[string]*ftEntry{}}
	for i := 0; i < 4; i++ {
		w.accs = append(w.accs, chain.Acc(i))
	}
	return w
}

func aclJSON(m map[string]string) string {
	b, _ := json.Marshal(m)
	return string(b)
}

func TestC10(t *testing.T) {
	rec := ev.For("C10")
	rec.Describe("stateful fork-mode histories (rapid state machine) by owner / editor / viewer / stranger accounts: provision roots, post under root and sub-folders (by owner, editor, stranger), re-post over existing entries, delete, change-owner (then the old owner acts), add / remove / reset viewers and editors with 1-4 ids. String fields (Address, FileOwner, HashParent, HashChild, Account, ids, tracking numbers) come from existing entries most of the time and are otherwise crafted ('/' inserted or moved across the address/owner boundary, proper prefixes, empty-after-trim, unicode, access lists that are not JSON). Reference tree keyed by (address, owner hash) that stores the account hash explicitly; authorisation is decided semantically; after every step the complete Files store (all records, all fields, access lists as parsed maps) must equal the model; an unauthorised message must return an error. Non-trivial = an unauthorised attempt on an existing entry and a successful post by a non-owner editor; distinct = distinct traces.",
		"an authorised message may fail without effect (e.g. malformed id/key lists); collisions of sha256 are not considered")
	c := chain.New(chain.GenesisOpts{NumAccounts: 4, Balance: sdk.NewCoins(sdk.NewInt64Coin("ujkl", 1_000_000))})
	defer c.Close()
	if os_only_regress() {
		return
	}
	search(t, rec, "history", budget(2500, 640000), 30, func(rt *rapid.T) {
		w := newC10World(c)
		fail := func(sig, msg string) {
			if sig != "" {
				failf(rt, rec, sig, w.trace, "%s", msg)
			}
		}
		drawAcc := func(rt *rapid.T, l string) chain.Account { return w.accs[rapid.IntRange(0, 3).Draw(rt, l)] }
		entries := func() []*ftEntry {
			ks := make([]string, 0, len(w.model))
			for k := range w.model {
				ks = append(ks, k)
			}
			sort.Strings(ks)
			out := make([]*ftEntry, len(ks))
			for i, k := range ks {
				out[i] = w.model[k]
			}
			return out
		}
		drawEntry := func(rt *rapid.T) *ftEntry {
			es := entries()
			if len(es) == 0 {
				// an empty tree: the action turns into provisioning a root first (skipping here could leave the state
				// machine without any enabled action for many draws in a row)
				a := w.accs[0]
				root, acct := fttypes.MerklePath("s"), hexsha(a.Bech)
				tn := "tn-auto"
				ed, vw := aclJSON(map[string]string{ftEditorID(tn, a.Bech): "k"}), aclJSON(map[string]string{ftViewerID(tn, a.Bech): "k"})
				if r := w.f.Exec(newMsgProvisionFileTree(a.Bech, ed, vw, tn)); r.OK() {
					w.model[ftKey(root, ftOwnerAddr(root, acct))] = &ftEntry{Address: root, Owner: ftOwnerAddr(root, acct), Account: acct, Contents: "", Viewers: vw, Editors: ed, Tracking: tn}
					w.logf("provision root by %s (the tree was empty)", short(a.Bech))
				}
				es = entries()
				if len(es) == 0 {
					rt.Skip()
				}
			}
			return es[rapid.IntRange(0, len(es)-1).Draw(rt, "entry")]
		}
		// craft perturbs a string taken from an existing entry
		craft := func(rt *rapid.T, l, s string) string {
			switch rapid.IntRange(0, 24).Draw(rt, l+"-craft") {
			case 0:
				return s + "/"
			case 1:
				if len(s) > 2 {
					return s[:len(s)/2] + "/" + s[len(s)/2:]
				}
			case 2:
				if len(s) > 1 {
					return s[:len(s)-1]
				}
			case 3:
				return " " + s
			case 4:
				return rapid.SampledFrom([]string{"x", "/", "é", "s", hexsha("zz")}).Draw(rt, l+"-odd")
			case 5:
				return strings.ToUpper(s) // same hex digits, different spelling
			}
			return s
		}
		signerFor := func(rt *rapid.T, e *ftEntry) chain.Account {
			if rapid.IntRange(0, 9).Draw(rt, "byOwner") < 5 {
				for _, a := range w.accs {
					if hexsha(a.Bech) == e.Account {
						return a
					}
				}
			}
			return drawAcc(rt, "signer")
		}
		genACL := func(rt *rapid.T, kind, tn string, must chain.Account) string {
			m := map[string]string{hexsha(kind + tn + must.Bech): "k0"}
			for i, n := 0, rapid.IntRange(0, 2).Draw(rt, kind+"-extra"); i < n; i++ {
				m[hexsha(kind+tn+drawAcc(rt, kind+"-member").Bech)] = fmt.Sprintf("k%d", i+1)
			}
			if rapid.IntRange(0, 5).Draw(rt, kind+"-idAsValue") == 0 {
				// somebody's access id appears in the list as a *value* (a key blob), under a key that is nobody's id
				m["pending-invite"] = hexsha(kind + tn + drawAcc(rt, kind+"-invited").Bech)
			}
			switch rapid.IntRange(0, 29).Draw(rt, kind+"-bad") {
			case 0:
				return rapid.SampledFrom([]string{"not json", "[]", `{"a":1}`, "null"}).Draw(rt, kind+"-badacl")
			case 1: // valid JSON of another shape that mentions a member's id: it grants nothing
				id := hexsha(kind + tn + drawAcc(rt, kind+"-listed").Bech)
				return rapid.SampledFrom([]string{`["` + id + `"]`, `{"ids":["` + id + `"]}`, `"` + id + `"`, `{"x":{"` + id + `":"k"}}`}).Draw(rt, kind+"-shape")
			}
			return aclJSON(m)
		}
		idsOf := func(rt *rapid.T, kind, tn string) (string, string) {
			n := rapid.IntRange(1, 4).Draw(rt, "nIds")
			var ids, keys []string
			for i := 0; i < n; i++ {
				switch rapid.IntRange(0, 9).Draw(rt, "idKind") {
				case 0:
					ids = append(ids, rapid.SampledFrom([]string{"", "x", "a/b", hexsha("w")}).Draw(rt, "oddId"))
				case 1: // an id that only differs from a real one by surrounding blanks or case
					real := hexsha(kind + tn + drawAcc(rt, "member").Bech)
					ids = append(ids, rapid.SampledFrom([]string{" " + real, real + " ", strings.ToUpper(real)}).Draw(rt, "nearId"))
				case 2: // an id of the OTHER list of the same entry (a viewer id in an editors message and vice versa)
					other := map[string]string{"v": "e", "e": "v"}[kind]
					ids = append(ids, hexsha(other+tn+drawAcc(rt, "member").Bech))
				default:
					ids = append(ids, hexsha(kind+tn+drawAcc(rt, "member").Bech))
				}
				if rapid.IntRange(0, 5).Draw(rt, "idAsKeyBlob") == 0 { // the key blob handed over is itself some member's access id
					keys = append(keys, hexsha(kind+tn+drawAcc(rt, "blobMember").Bech))
				} else {
					keys = append(keys, fmt.Sprintf("key%d", i))
				}
			}
			if rapid.IntRange(0, 14).Draw(rt, "fewerKeys") == 0 && len(keys) > 1 {
				keys = keys[:len(keys)-1]
			}
			return strings.Join(ids, ","), strings.Join(keys, ",")
		}
		tnCounter := 0
		newTN := func() string { tnCounter++; return fmt.Sprintf("tn%d", tnCounter) }
		// tracking numbers are free-form strings chosen by the signer and readable from chain state: now and then a new
		// entry reuses the tracking number of an existing one (access ids derive from it)
		drawTN := func(rt *rapid.T) string {
			if es := entries(); len(es) > 0 && rapid.IntRange(0, 3).Draw(rt, "reuseTrackingNumber") == 0 {
				return es[rapid.IntRange(0, len(es)-1).Draw(rt, "whoseTrackingNumber")].Tracking
			}
			return newTN()
		}

		aclStep := func(rt *rapid.T, fe *ftEntry, fs *chain.Account, fkind, fop string) (opDone, kindDone string, eDone *ftEntry, sDone chain.Account, okDone bool) {
			e := fe
			if e == nil {
				e = drawEntry(rt)
			}
			signer := signerFor(rt, e)
			if fs != nil {
				signer = *fs
			}
			addr, owner := craft(rt, "address", e.Address), craft(rt, "fileOwner", e.Owner)
			if rapid.IntRange(0, 5).Draw(rt, "accountForOwnerAddress") == 0 {
				owner = e.Account // the account hash where the owner address is expected
			}
			t, found := w.model[ftKey(addr, owner)]
			verdict := mustFail
			if found && w.isOwner(t, signer.Bech) {
				verdict = mayDo
			}
			kind := rapid.SampledFrom([]string{"v", "e"}).Draw(rt, "list")
			op := rapid.SampledFrom([]string{"add", "add", "remove", "reset"}).Draw(rt, "op")
			if fkind != "" {
				kind, op = fkind, fop
			}
			tn := ""
			if found {
				tn = t.Tracking
			}
			ids, keys := idsOf(rt, kind, tn)
			if found && rapid.IntRange(0, 7).Draw(rt, "memberActsOnItsOwnId") == 0 {
				// somebody who is not the owner names exactly its own id of that list (a viewer "leaving a share")
				m := drawAcc(rt, "member")
				signer = m
				ids, keys = hexsha(kind+tn+m.Bech), "k"
				verdict = mustFail
				if w.isOwner(t, signer.Bech) {
					verdict = mayDo
				}
			}
			var msg sdk.Msg
			switch kind + op {
			case "vadd":
				msg = fttypes.NewMsgAddViewers(signer.Bech, ids, keys, addr, owner)
			case "eadd":
				msg = fttypes.NewMsgAddEditors(signer.Bech, ids, keys, addr, owner)
			case "vremove":
				msg = fttypes.NewMsgRemoveViewers(signer.Bech, ids, addr, owner)
			case "eremove":
				msg = fttypes.NewMsgRemoveEditors(signer.Bech, ids, addr, owner)
			case "vreset":
				msg = fttypes.NewMsgResetViewers(signer.Bech, addr, owner)
			default:
				msg = fttypes.NewMsgResetEditors(signer.Bech, addr, owner)
			}
			what := fmt.Sprintf("%s %s by %s on %s (owner hash %s) ids=%s [found=%v]", op, map[string]string{"v": "viewers", "e": "editors"}[kind], short(signer.Bech), abbrev(addr), abbrev(owner), abbrev(ids), found)
			fail(w.apply(what, msg, verdict, found, func() {
				cur := t.Viewers
				if kind == "e" {
					cur = t.Editors
				}
				m, _ := parseACL(cur) // success implies it parsed
				if m == nil {
					m = map[string]string{}
				}
				switch op {
				case "add":
					ks := splitIDs(keys)
					for i, id := range splitIDs(ids) {
						m[id] = ks[i]
					}
				case "remove":
					for _, id := range splitIDs(ids) {
						delete(m, id)
					}
				case "reset":
					own := ftViewerID(t.Tracking, signer.Bech)
					if kind == "e" {
						own = ftEditorID(t.Tracking, signer.Bech)
					}
					m = map[string]string{own: m[own]}
				}
				if kind == "v" {
					t.Viewers = aclJSON(m)
				} else {
					t.Editors = aclJSON(m)
				}
			}))
			return op, kind, e, signer, found && verdict == mayDo
		}
		rt.Repeat(map[string]func(*rapid.T){
			"provision": func(rt *rapid.T) {
				a := drawAcc(rt, "signer")
				tn := drawTN(rt)
				ed, vw := genACL(rt, "e", tn, a), genACL(rt, "v", tn, a)
				root := fttypes.MerklePath("s")
				acct := hexsha(a.Bech)
				msg := newMsgProvisionFileTree(a.Bech, ed, vw, tn)
				fail(w.apply(fmt.Sprintf("provision root by %s", short(a.Bech)), msg, mayDo, false, func() {
					w.model[ftKey(root, ftOwnerAddr(root, acct))] = &ftEntry{Address: root, Owner: ftOwnerAddr(root, acct), Account: acct, Contents: "", Viewers: vw, Editors: ed, Tracking: tn}
				}))
			},
			"post": func(rt *rapid.T) {
				parent := drawEntry(rt)
				signer := signerFor(rt, parent)
				if rapid.IntRange(0, 9).Draw(rt, "anyone") < 4 {
					signer = drawAcc(rt, "signer2")
				}
				hp := craft(rt, "hashParent", parent.Address)
				acct := craft(rt, "account", parent.Account)
				child := rapid.SampledFrom([]string{hexsha("a"), hexsha("b"), hexsha("home"), "x", "a/b", hexsha("a") + "/"}).Draw(rt, "hashChild")
				tn := drawTN(rt)
				ed, vw := genACL(rt, "e", tn, signer), genACL(rt, "v", tn, signer)
				contents := rapid.SampledFrom([]string{"c1", "c2", "{}"}).Draw(rt, "contents")
				msg := fttypes.NewMsgPostFile(signer.Bech, acct, hp, child, contents, vw, ed, tn)
				// semantic authorisation
				p, found := w.model[ftKey(hp, ftOwnerAddr(hp, acct))]
				verdict := mustFail
				if found {
					if m, ok := parseACL(p.Editors); ok {
						if _, has := m[ftEditorID(p.Tracking, signer.Bech)]; has {
							verdict = mayDo
						}
					}
				}
				full := hexsha(hp + child)
				isEditorNotOwner := found && verdict == mayDo && !w.isOwner(p, signer.Bech)
				what := fmt.Sprintf("post by %s under %s (account %s) child %s [parent found=%v]", short(signer.Bech), abbrev(hp), abbrev(acct), abbrev(child), found)
				pre := len(w.trace)
				fail(w.apply(what, msg, verdict, found, func() {
					w.model[ftKey(full, ftOwnerAddr(full, acct))] = &ftEntry{Address: full, Owner: ftOwnerAddr(full, acct), Account: acct, Contents: contents, Viewers: vw, Editors: ed, Tracking: tn}
					if isEditorNotOwner {
						w.editorPost = true
					}
				}))
				_ = pre
			},
			"delete": func(rt *rapid.T) {
				e := drawEntry(rt)
				signer := signerFor(rt, e)
				hp, acct := craft(rt, "hashPath", e.Address), craft(rt, "account", e.Account)
				if rapid.IntRange(0, 5).Draw(rt, "ownerAddressForAccount") == 0 {
					acct = e.Owner // the owner address where the account hash is expected
				}
				t, found := w.model[ftKey(hp, ftOwnerAddr(hp, acct))]
				verdict := mustFail
				if found && w.isOwner(t, signer.Bech) {
					verdict = mayDo
				}
				fail(w.apply(fmt.Sprintf("delete by %s of %s (account %s) [found=%v]", short(signer.Bech), abbrev(hp), abbrev(acct), found), fttypes.NewMsgDeleteFile(signer.Bech, hp, acct), verdict, found, func() {
					delete(w.model, ftKey(hp, ftOwnerAddr(hp, acct)))
				}))
			},
			"changeOwner": func(rt *rapid.T) {
				e := drawEntry(rt)
				signer := signerFor(rt, e)
				addr, acct := craft(rt, "address", e.Address), craft(rt, "fileOwner", e.Account)
				if rapid.IntRange(0, 5).Draw(rt, "ownerAddressForAccount") == 0 {
					acct = e.Owner // the owner field in the form the access-list messages take (the entry's owner address)
				}
				newAcct := hexsha(drawAcc(rt, "newOwner").Bech)
				switch rapid.IntRange(0, 9).Draw(rt, "oddNewOwner") {
				case 0:
					newAcct = rapid.SampledFrom([]string{"x", "a/b", e.Account}).Draw(rt, "newOwnerOdd")
				case 1, 2: // another spelling of somebody's account hash
					newAcct = strings.ToUpper(newAcct)
				}
				t, found := w.model[ftKey(addr, ftOwnerAddr(addr, acct))]
				verdict := mustFail
				_, clash := w.model[ftKey(addr, ftOwnerAddr(addr, newAcct))]
				if found && w.isOwner(t, signer.Bech) && !clash {
					verdict = mayDo
				}
				if found && w.isOwner(t, signer.Bech) && clash {
					// authorised but the target slot is taken: the code refuses; accept failure, forbid success
					verdict = mustFail
				}
				fail(w.apply(fmt.Sprintf("change-owner by %s of %s (account %s) to account %s [found=%v clash=%v]", short(signer.Bech), abbrev(addr), abbrev(acct), abbrev(newAcct), found, clash), fttypes.NewMsgChangeOwner(signer.Bech, addr, acct, newAcct), verdict, found, func() {
					delete(w.model, ftKey(addr, ftOwnerAddr(addr, acct)))
					n := *t
					n.Owner, n.Account = ftOwnerAddr(addr, newAcct), newAcct
					w.model[ftKey(addr, n.Owner)] = &n
				}))
			},
			// one transaction whose last message fails: everything its earlier messages did (here: the owner granting a
			// stranger edit access and the stranger's entry appearing) is discarded with it
			"rolledBackBatch": func(rt *rapid.T) {
				e := drawEntry(rt)
				var owner chain.Account
				for _, a := range w.accs {
					if hexsha(a.Bech) == e.Account {
						owner = a
					}
				}
				if owner.Bech == "" {
					rt.Skip()
				}
				stranger := drawAcc(rt, "stranger")
				grant := fttypes.NewMsgAddEditors(owner.Bech, ftEditorID(e.Tracking, stranger.Bech), "k", e.Address, e.Owner)
				post := fttypes.NewMsgPostFile(owner.Bech, e.Account, e.Address, hexsha("batch"), "c", "{}", "{}", "tn-batch")
				failing := fttypes.NewMsgChangeOwner(owner.Bech, hexsha("no such entry"), hexsha("nobody"), hexsha("x"))
				msgs := []sdk.Msg{grant, failing}
				if rapid.Bool().Draw(rt, "withPost") {
					msgs = []sdk.Msg{grant, post, failing}
				}
				res := w.f.ExecAtomic(msgs...)
				w.logf("one transaction by %s: grant %s edit access to %s, then a message that fails -> %s", short(owner.Bech), short(stranger.Bech), abbrev(e.Address), res)
				if res.OK() {
					fail("C10/harness", "the batch was meant to fail")
				}
				w.rolledBack++
				fail(w.compare("a transaction that was rolled back"))
			},
			"acl": func(rt *rapid.T) {
				op, kind, e, signer, ok := aclStep(rt, nil, nil, "", "")
				// a reset is often followed by an add to the same list by the same signer
				if op == "reset" && ok && rapid.Bool().Draw(rt, "addRightAfterTheReset") {
					aclStep(rt, e, &signer, kind, "add")
				}
			},
		})
		if w.editorPost {
			rec.Count("editor-post")
		}
		if w.unauthorisedOnExisting {
			rec.Count("unauthorised-attempt-on-existing")
		}
		rec.Case(w.unauthorisedOnExisting && w.editorPost, ev.Hash(w.trace...), func() interface{} { return w.trace })
	})
}
