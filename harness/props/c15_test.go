package props

// C15 — provider collateral is fully backed and returned exactly once.

import (
	"fmt"
	"math/big"
	"strings"
	"testing"
	"time"

	sdk "github.com/cosmos/cosmos-sdk/types"
	authtypes "github.com/cosmos/cosmos-sdk/x/auth/types"
	"pgregory.net/rapid"

	vestingtypes "github.com/cosmos/cosmos-sdk/x/auth/vesting/types"
	"github.com/jackalLabs/canine-chain/v4/x/storage"
	storagetypes "github.com/jackalLabs/canine-chain/v4/x/storage/types"

	"verifharness/chain"
	"verifharness/ev"
)

type c15World struct {
	c                        *chain.Chain
	f                        *chain.Fork
	trace                    []string
	recorded                 map[string]int64 // model: collateral locked per registered provider
	shutdownAfterPriceChange bool
	sw                       *storWorld // the same fork seen as a storage world (files, proofs, reward blocks)
	burns                    int
	vesting                  int
	priceChangedSince        map[string]bool
}

func (w *c15World) logf(format string, a ...interface{}) {
	w.trace = append(w.trace, fmt.Sprintf(format, a...))
}

var collateralAddr = func() string {
	chain.InitConfig() // the SDK caches bech32 strings per address: the jkl prefix must be set first
	return authtypes.NewModuleAddress(storagetypes.CollateralCollectorName).String()
}()

// invariant: escrow == sum of records == model
func (w *c15World) invariant() (string, string) {
	sum := new(big.Int)
	recs := map[string]int64{}
	for _, c := range w.c.App.StorageKeeper.GetAllCollateral(w.f.Ctx) {
		sum.Add(sum, big.NewInt(c.Amount))
		recs[c.Address] = c.Amount
	}
	bal := w.f.Snapshot().Get(collateralAddr, "ujkl").BigInt()
	if bal.Cmp(sum) != 0 {
		return "C15/escrow-vs-records", fmt.Sprintf("collateral escrow account holds %s ujkl, recorded collaterals sum to %s", bal, sum)
	}
	for a, v := range w.recorded {
		if recs[a] != v {
			return "C15/record-vs-model", fmt.Sprintf("provider %s locked %d, record says %d", short(a), v, recs[a])
		}
		if _, found := w.c.App.StorageKeeper.GetProviders(w.f.Ctx, a); !found {
			return "C15/provider-missing", fmt.Sprintf("collateral recorded for %s but no provider record", short(a))
		}
	}
	for a, v := range recs {
		if _, ok := w.recorded[a]; !ok {
			return "C15/record-vs-model", fmt.Sprintf("record of %d for %s although it holds no registration", v, short(a))
		}
	}
	return "", ""
}

func (w *c15World) init(acc chain.Account, ip string) (string, string) {
	return w.initAs(acc, acc.Bech, ip)
}

// initAs registers with the creator address spelled as given (upper-case bech32 is the same account, but the chain keys
// provider and collateral records by the string: the model does the same and still demands full backing).
func (w *c15World) initAs(acc chain.Account, spelled, ip string) (string, string) {
	price := w.c.App.StorageKeeper.GetParams(w.f.Ctx).CollateralPrice
	before := w.f.Snapshot()
	_, wasProvider := w.recorded[spelled]
	res := w.f.Exec(storagetypes.NewMsgInitProvider(spelled, ip, 1_000_000, "kb"))
	after := w.f.Snapshot()
	w.logf("init by acc%d (price %d, balance %s) -> %s", acc.Index, price, before.Get(acc.Bech, "ujkl"), res)
	diff := before.Diff(after)
	if !res.OK() {
		if len(diff) != 0 {
			return "C15/failed-init-moved-funds", fmt.Sprint(diff)
		}
		return "", ""
	}
	if wasProvider {
		return "C15/double-init", fmt.Sprintf("acc%d registered again while registered", acc.Index)
	}
	if len(diff) != 2 || !after.Get(acc.Bech, "ujkl").Equal(before.Get(acc.Bech, "ujkl").SubRaw(price)) ||
		!after.Get(collateralAddr, "ujkl").Equal(before.Get(collateralAddr, "ujkl").AddRaw(price)) {
		return "C15/init-debit", fmt.Sprintf("init at collateral price %d changed balances by %v", price, diff)
	}
	w.recorded[spelled] = price
	w.priceChangedSince[spelled] = false
	return "", ""
}

func (w *c15World) shutdown(acc chain.Account) (string, string) { return w.shutdownAs(acc, acc.Bech) }

func (w *c15World) shutdownAs(acc chain.Account, spelled string) (string, string) {
	before := w.f.Snapshot()
	amount, was := w.recorded[spelled]
	res := w.f.Exec(newMsgShutdownProvider(spelled))
	after := w.f.Snapshot()
	w.logf("shutdown by acc%d (recorded %d, registered=%v) -> %s", acc.Index, amount, was, res)
	diff := before.Diff(after)
	if !res.OK() {
		if len(diff) != 0 {
			return "C15/failed-shutdown-moved-funds", fmt.Sprint(diff)
		}
		if was {
			// authorised-but-failing is acceptable only if nothing changed; the provider stays registered
			return "", ""
		}
		return "", ""
	}
	if !was {
		if len(diff) != 0 {
			return "C15/shutdown-without-registration-paid", fmt.Sprintf("acc%d is not registered, shutdown moved %v", acc.Index, diff)
		}
		return "", ""
	}
	if !after.Get(acc.Bech, "ujkl").Equal(before.Get(acc.Bech, "ujkl").AddRaw(amount)) || len(diff) != 2 {
		return "C15/shutdown-refund", fmt.Sprintf("acc%d had %d recorded, shutdown changed balances by %v", acc.Index, amount, diff)
	}
	if _, found := w.c.App.StorageKeeper.GetProviders(w.f.Ctx, spelled); found {
		return "C15/provider-remains", "provider record still present after shutdown"
	}
	if _, found := w.c.App.StorageKeeper.GetCollateral(w.f.Ctx, spelled); found {
		return "C15/collateral-record-remains", "collateral record still present after shutdown"
	}
	if w.priceChangedSince[spelled] {
		w.shutdownAfterPriceChange = true
	}
	delete(w.recorded, spelled)
	return "", ""
}

func (w *c15World) setPrice(p int64) {
	params := w.c.App.StorageKeeper.GetParams(w.f.Ctx)
	params.CollateralPrice = p
	w.c.App.StorageKeeper.SetParams(w.f.Ctx, params)
	for a := range w.recorded {
		if w.recorded[a] != p {
			w.priceChangedSince[a] = true
		}
	}
	w.logf("governance sets CollateralPrice = %d", p)
}

func TestC15(t *testing.T) {
	rec := ev.For("C15")
	rec.Describe("stateful histories of init-provider / shutdown / re-init / shutdown-again by 4 accounts (balances around the price) and edits of the provider record (SetProviderIP / Keybase / TotalSpace), interleaved with CollateralPrice parameter changes (up and down) and with storage activity (a customer's files taken by the registered providers, which keep proving or fall silent while reward blocks raise their burn counters), on a fork of the real app with the real bank keeper. After every step: escrow account balance == sum of Collateral records == model; init debits exactly the current price; shutdown credits exactly the recorded amount and removes provider and record; shutdown by a non-provider pays nothing; at the end of every history the storage genesis is exported and imported into a fresh store, where the records must still add up to the escrow balance. Non-trivial = a successful shutdown after the price changed since that provider's init; distinct = distinct traces.",
		"CollateralPrice is changed through the keeper's SetParams with values its validator accepts (> 1), standing in for governance")
	c := chain.New(chain.GenesisOpts{NumAccounts: 4, Balance: sdk.NewCoins(sdk.NewInt64Coin("ujkl", 30_000)), Faucet: sdk.NewCoins(sdk.NewInt64Coin("ujkl", 1_000_000_000_000))})
	defer c.Close()
	newWorld := func() *c15World {
		w := &c15World{c: c, f: c.Fork(5, chain.GenesisTime.Add(time.Minute)), recorded: map[string]int64{}, priceChangedSince: map[string]bool{}}
		w.setPrice(10_000)
		w.sw = &storWorld{c: c, f: w.f}
		w.sw.setParams(func(p *storagetypes.Params) { p.ChunkSize, p.ProofWindow, p.CheckWindow = 1024, 4, 6 })
		return w
	}
	// plain regression-style scenario (no library): init at P1, lower the price, shutdown
	{
		w := newWorld()
		sig, msg := "", ""
		steps := []func() (string, string){
			func() (string, string) { return w.init(chain.Acc(0), "https://a.example.com") },
			func() (string, string) { w.setPrice(4_000); return w.invariant() },
			func() (string, string) { return w.shutdown(chain.Acc(0)) },
			func() (string, string) { return w.invariant() },
			func() (string, string) { return w.shutdown(chain.Acc(0)) },
			func() (string, string) { return w.invariant() },
		}
		for _, s := range steps {
			if sig, msg = s(); sig != "" {
				break
			}
		}
		rec.Regress("C15/scenario/init-lower-price-shutdown-twice", sig != "", msg)
	}
	if os_only_regress() {
		return
	}
	search(t, rec, "history", budget(2000, 500000), 25, func(rt *rapid.T) {
		w := newWorld()
		fail := func(sig, msg string) {
			if sig != "" {
				failf(rt, rec, sig, w.trace, "%s", msg)
			}
		}
		rt.Repeat(map[string]func(*rapid.T){
			"init": func(rt *rapid.T) {
				a := chain.Acc(rapid.IntRange(0, 3).Draw(rt, "acc"))
				ip := rapid.SampledFrom([]string{"https://a.example.com", "http://b.example.org:3333", "https://localhost"}).Draw(rt, "ip")
				if rapid.IntRange(0, 5).Draw(rt, "upperCaseCreator") == 0 {
					fail(w.initAs(a, strings.ToUpper(a.Bech), ip))
				} else {
					fail(w.init(a, ip))
				}
			},
			"shutdown": func(rt *rapid.T) {
				a := chain.Acc(rapid.IntRange(0, 3).Draw(rt, "acc"))
				if rapid.IntRange(0, 5).Draw(rt, "upperCaseCreator") == 0 {
					fail(w.shutdownAs(a, strings.ToUpper(a.Bech)))
				} else {
					fail(w.shutdown(a))
				}
			},
			// storage activity around the providers: a customer's files are taken by the registered providers, which then
			// keep proving or fall silent while reward blocks pass (their burn counters rise); none of that may touch
			// the collateral records or the escrow
			"storeFiles": func(rt *rapid.T) {
				owner := chain.Acc(20)
				if _, has := w.c.App.StorageKeeper.GetStoragePaymentInfo(w.f.Ctx, owner.Bech); !has {
					w.f.Fund(owner.Addr, sdk.NewCoins(sdk.NewInt64Coin("ujkl", 1_000_000_000)))
					w.sw.buyStorage(owner, owner.Bech, 30, 1_000_000_000, "")
				}
				for i, n := 0, rapid.IntRange(1, 3).Draw(rt, "files"); i < n; i++ {
					f, r := w.sw.postFile(owner, append([]byte{byte(len(w.sw.files) + 1)}, c02Content(rapid.Int64Range(1, 2000).Draw(rt, "size"))...), 3, 0)
					if !r.OK() {
						continue
					}
					for k := 0; k < 4; k++ {
						if _, registered := w.recorded[chain.Acc(k).Bech]; registered && rapid.IntRange(0, 3).Draw(rt, "takes") > 0 {
							w.sw.honestProve(chain.Acc(k), f)
						}
					}
				}
				w.trace = append(w.trace, w.sw.trace...)
				w.sw.trace = nil
			},
			// somebody opens report forms about the providers that hold a customer's file, and the customer then deletes the
			// file: the forms stay behind (nothing cleans them up), about provers of a file that is gone. A provider's
			// collateral has nothing to do with any of it
			"reportedFileDeleted": func(rt *rapid.T) {
				if len(w.sw.files) == 0 {
					rt.Skip()
				}
				w.sw.setParams(func(p *storagetypes.Params) { p.AttestFormSize, p.AttestMinToPass = 1, 1 })
				f := w.sw.files[rapid.IntRange(0, len(w.sw.files)-1).Draw(rt, "file")]
				opened := 0
				for _, pr := range w.sw.listedProvers(f) {
					r := w.f.Exec(newMsgRequestReportForm(chain.Acc(20).Bech, pr, f.Merkle, f.Owner, f.Start))
					if _, found := w.c.App.StorageKeeper.GetReportForm(w.f.Ctx, pr, f.Merkle, f.Owner, f.Start); found && r.OK() {
						opened++
					}
				}
				r := w.f.Exec(&storagetypes.MsgDeleteFile{Creator: f.Owner, Merkle: f.Merkle, Start: f.Start})
				w.trace = append(w.trace, fmt.Sprintf("h=%d %d report form(s) opened about the provers of %s, then the owner deletes the file -> %s", w.f.Height(), opened, f.id(), r))
				if opened > 0 && r.OK() {
					rec.Count("report-forms-left-behind-by-a-deleted-file")
				}
			},
			"blocks": func(rt *rapid.T) {
				n := rapid.IntRange(1, 14).Draw(rt, "blocks")
				proving := rapid.Bool().Draw(rt, "keepProving")
				for i := 0; i < n; i++ {
					w.f.SetBlock(w.f.Height()+1, w.f.Time().Add(6*time.Second))
					if bb := w.f.BeginCustom(false, true); bb.Panic != nil {
						rt.Skip() // C05's subject
					}
					if proving {
						for _, f := range w.sw.files {
							for k := 0; k < 4; k++ {
								if _, listed := w.sw.challenge(chain.Acc(k).Bech, f); listed {
									w.sw.honestProve(chain.Acc(k), f)
								}
							}
						}
					}
				}
				w.sw.trace = nil
				burned := 0
				for _, p := range w.c.App.StorageKeeper.GetAllProviders(w.f.Ctx) {
					if p.BurnedContracts != "0" && p.BurnedContracts != "" {
						burned++
					}
				}
				if burned > w.burns {
					w.burns = burned
				}
				w.logf("%d blocks pass (providers keep proving: %v); providers with burned contracts: %d", n, proving, burned)
			},
			// a provider edits its own record (address, keybase identity, capacity): the collateral stays what it was
			"edit": func(rt *rapid.T) {
				a := chain.Acc(rapid.IntRange(0, 3).Draw(rt, "acc"))
				var m sdk.Msg
				switch rapid.IntRange(0, 2).Draw(rt, "field") {
				case 0:
					m = storagetypes.NewMsgSetProviderIP(a.Bech, rapid.SampledFrom([]string{"https://new.example.net", "http://10.1.1.1:3333"}).Draw(rt, "ip"))
				case 1:
					m = storagetypes.NewMsgSetProviderKeybase(a.Bech, rapid.SampledFrom([]string{"kb2", ""}).Draw(rt, "keybase"))
				default:
					m = storagetypes.NewMsgSetProviderTotalSpace(a.Bech, rapid.Int64Range(0, 1<<40).Draw(rt, "space"))
				}
				before := w.f.Snapshot()
				res := w.f.Exec(m)
				w.logf("%s -> %s", msgSummary(m), res)
				if d := before.Diff(w.f.Snapshot()); len(d) != 0 {
					fail("C15/edit-moved-funds", fmt.Sprintf("a provider-record edit changed balances: %v", d))
				}
			},
			// an account whose whole balance is still vesting (locked): it owns enough for the collateral but cannot spend it
			"vestingRegistrant": func(rt *rapid.T) {
				if w.vesting >= 3 {
					rt.Skip()
				}
				acc := chain.Acc(30 + w.vesting)
				w.vesting++
				price := w.c.App.StorageKeeper.GetParams(w.f.Ctx).CollateralPrice
				locked := sdk.NewCoins(sdk.NewInt64Coin("ujkl", price+rapid.Int64Range(0, 5000).Draw(rt, "extraLocked")))
				funder := chain.Acc(chain.AccFaucet)
				r := w.f.Exec(vestingtypes.NewMsgCreateVestingAccount(funder.Addr, acc.Addr, locked, w.f.Time().Unix()+1_000_000_000, true))
				w.logf("vesting account acc%d created with %s locked -> %s", acc.Index, locked, r)
				if !r.OK() {
					return
				}
				rec.Count("vesting-registrants")
				fail(w.init(acc, "https://vesting.example.com"))
			},
			"price": func(rt *rapid.T) {
				w.setPrice(rapid.SampledFrom([]int64{2, 3, 4_000, 9_999, 10_000, 10_001, 15_000, 29_999, 30_000, 30_001, 1_000_000}).Draw(rt, "price"))
			},
			"": func(rt *rapid.T) { fail(w.invariant()) },
		})
		if w.burns > 0 {
			rec.Count("histories-with-burned-contracts")
		}
		// "always" includes a restart from an exported genesis: the bank module carries the escrow balance over
		// unchanged, so the collateral records that come back from the storage module's export/import must still add up to it
		{
			gs := storage.ExportGenesis(w.f.Ctx, c.App.StorageKeeper)
			fresh := c.Fork(w.f.Height(), w.f.Time())
			storage.InitGenesis(fresh.Ctx, c.App.StorageKeeper, *gs)
			sum := new(big.Int)
			for _, col := range c.App.StorageKeeper.GetAllCollateral(fresh.Ctx) {
				sum.Add(sum, big.NewInt(col.Amount))
				if _, found := c.App.StorageKeeper.GetProviders(fresh.Ctx, col.Address); !found {
					w.logf("export the storage genesis and import it into a fresh store")
					failf(rt, rec, "C15/genesis-roundtrip/provider-missing", w.trace, "after export/import a collateral of %d is recorded for %s but there is no provider record", col.Amount, short(col.Address))
				}
			}
			if bal := w.f.Snapshot().Get(collateralAddr, "ujkl").BigInt(); bal.Cmp(sum) != 0 {
				w.logf("export the storage genesis and import it into a fresh store")
				failf(rt, rec, "C15/genesis-roundtrip/escrow-vs-records", w.trace, "after export/import of the storage genesis the recorded collaterals sum to %s, the escrow account (carried over by the bank module) holds %s", sum, bal)
			}
		}
		rec.Case(w.shutdownAfterPriceChange, ev.Hash(w.trace...), func() interface{} { return w.trace })
	})
}
