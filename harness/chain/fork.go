package chain

import (
	"fmt"
	"os"
	"runtime/debug"
	"sort"
	"time"

	sdk "github.com/cosmos/cosmos-sdk/types"
	banktypes "github.com/cosmos/cosmos-sdk/x/bank/types"
	"github.com/gogo/protobuf/proto"

	"github.com/jackalLabs/canine-chain/v4/x/jklmint"
	"github.com/jackalLabs/canine-chain/v4/x/storage"
)

// Fork is a private, never-committed branch of the deliver state of a Chain.
type Fork struct {
	C   *Chain
	Ctx sdk.Context
}

// Fork branches the uncommitted deliver state.  Height and time can be moved freely.
func (c *Chain) Fork(height int64, t time.Time) *Fork {
	ctx, _ := c.BaseCtx(height, t).CacheContext()
	return &Fork{C: c, Ctx: ctx.WithEventManager(sdk.NewEventManager())}
}

// Branch forks a fork (used to look ahead without disturbing the history).
func (f *Fork) Branch() *Fork {
	ctx, _ := f.Ctx.CacheContext()
	return &Fork{C: f.C, Ctx: ctx.WithEventManager(sdk.NewEventManager())}
}

func (f *Fork) Height() int64   { return f.Ctx.BlockHeight() }
func (f *Fork) Time() time.Time { return f.Ctx.BlockTime() }

// SetBlock moves the fork to another height / block time (header only; call the
// BeginBlockers explicitly).
func (f *Fork) SetBlock(height int64, t time.Time) {
	hdr := f.Ctx.BlockHeader()
	hdr.Height = height
	hdr.Time = t
	f.Ctx = f.Ctx.WithBlockHeader(hdr).WithBlockHeight(height)
}

// SetBlockGas installs a block gas meter that has already consumed `used` gas; the
// storage module seeds the next challenge from that number.
func (f *Fork) SetBlockGas(used uint64) {
	gm := sdk.NewInfiniteGasMeter()
	if used > 0 {
		gm.ConsumeGas(used, "verif")
	}
	f.Ctx = f.Ctx.WithBlockGasMeter(gm)
}

// Result of executing one message with runMsgs semantics.
type Result struct {
	Err    error       // ValidateBasic / routing / handler error (tx failed, nothing written)
	Panic  interface{} // handler panicked (tx failed, nothing written)
	Stack  string
	Data   []byte // marshalled Msg response when Err == nil
	Events sdk.Events
}

// OK reports whether the message was executed and its writes were kept.
func (r Result) OK() bool { return r.Err == nil && r.Panic == nil }

func (r Result) String() string {
	switch {
	case r.Panic != nil:
		return fmt.Sprintf("panic: %v", r.Panic)
	case r.Err != nil:
		return "err: " + r.Err.Error()
	}
	return "ok"
}

// Decode unmarshals the response of a successful message.
func (r Result) Decode(into proto.Message) error {
	return proto.Unmarshal(r.Data, into)
}

// Exec runs one message the way baseapp.runTx/runMsgs does in deliver mode, minus
// the ante handler: stateless validation, routed handler on a cache-wrapped store,
// write-back only when the handler returned a nil error; panics are recovered and
// treated as a failed transaction (runTx recovers them, too).
func (f *Fork) Exec(msg sdk.Msg) (res Result) {
	if err := msg.ValidateBasic(); err != nil {
		return Result{Err: err}
	}
	handler := f.C.App.MsgServiceRouter().Handler(msg)
	if handler == nil {
		return Result{Err: fmt.Errorf("no route for %s", sdk.MsgTypeURL(msg))}
	}
	cctx, write := f.Ctx.CacheContext()
	cctx = cctx.WithGasMeter(sdk.NewInfiniteGasMeter())
	defer quiet()()
	defer func() {
		if r := recover(); r != nil {
			res = Result{Panic: r, Stack: string(debug.Stack())}
		}
	}()
	r, err := handler(cctx, msg)
	if err != nil {
		return Result{Err: err}
	}
	write()
	return Result{Data: r.Data, Events: r.GetEvents()}
}

// ExecAtomic runs several messages the way one transaction does: all on one branch of the state, which is written back
// only if every message succeeds; the first failure (or panic) discards everything the earlier messages did.
func (f *Fork) ExecAtomic(msgs ...sdk.Msg) (res Result) {
	cctx, write := f.Ctx.CacheContext()
	cctx = cctx.WithGasMeter(sdk.NewInfiniteGasMeter())
	defer quiet()()
	defer func() {
		if r := recover(); r != nil {
			res = Result{Panic: r, Stack: string(debug.Stack())}
		}
	}()
	var events sdk.Events
	var data []byte
	for _, msg := range msgs {
		if err := msg.ValidateBasic(); err != nil {
			return Result{Err: err}
		}
		handler := f.C.App.MsgServiceRouter().Handler(msg)
		if handler == nil {
			return Result{Err: fmt.Errorf("no route for %s", sdk.MsgTypeURL(msg))}
		}
		r, err := handler(cctx, msg)
		if err != nil {
			return Result{Err: err}
		}
		events = append(events, r.GetEvents()...)
		data = r.Data
		_ = events
	}
	write()
	return Result{Data: data, Events: events}
}

// BeginBlockResult reports a panic of block processing.
type BeginBlockResult struct {
	Panic interface{}
	Stack string
}

// BeginCustom runs the two custom BeginBlockers that do work (jklmint, then storage)
// at the fork's current height/time, recovering panics for the caller to judge.
func (f *Fork) BeginCustom(mint, stor bool) (res BeginBlockResult) {
	defer func() {
		if r := recover(); r != nil {
			res = BeginBlockResult{Panic: r, Stack: string(debug.Stack())}
		}
	}()
	f.Ctx = f.Ctx.WithEventManager(sdk.NewEventManager())
	defer quiet()()
	if mint {
		jklmint.BeginBlocker(f.Ctx, f.C.App.MintKeeper)
	}
	if stor {
		storage.BeginBlocker(f.Ctx, f.C.App.StorageKeeper)
	}
	return
}

// Balances is a snapshot of every balance on the chain: address -> denom -> amount.
type Balances map[string]map[string]sdk.Int

// Snapshot reads all balances through the real bank keeper.
func (f *Fork) Snapshot() Balances { return SnapshotBalances(f.C, f.Ctx) }

func SnapshotBalances(c *Chain, ctx sdk.Context) Balances {
	out := Balances{}
	c.App.BankKeeper.IterateAllBalances(ctx, func(addr sdk.AccAddress, coin sdk.Coin) bool {
		k := addr.String()
		if out[k] == nil {
			out[k] = map[string]sdk.Int{}
		}
		out[k][coin.Denom] = coin.Amount
		return false
	})
	return out
}

// Get returns the amount held by addr in denom (zero if none).
func (b Balances) Get(addr, denom string) sdk.Int {
	if m, ok := b[addr]; ok {
		if v, ok := m[denom]; ok {
			return v
		}
	}
	return sdk.ZeroInt()
}

// Delta lists every (address, denom) whose amount differs between two snapshots.
type Delta struct {
	Addr, Denom string
	Diff        sdk.Int // after - before
}

func (b Balances) Diff(after Balances) []Delta {
	seen := map[string]bool{}
	var out []Delta
	visit := func(addr, denom string) {
		k := addr + "|" + denom
		if seen[k] {
			return
		}
		seen[k] = true
		d := after.Get(addr, denom).Sub(b.Get(addr, denom))
		if !d.IsZero() {
			out = append(out, Delta{addr, denom, d})
		}
	}
	for a, m := range b {
		for d := range m {
			visit(a, d)
		}
	}
	for a, m := range after {
		for d := range m {
			visit(a, d)
		}
	}
	sort.Slice(out, func(i, j int) bool {
		if out[i].Addr != out[j].Addr {
			return out[i].Addr < out[j].Addr
		}
		return out[i].Denom < out[j].Denom
	})
	return out
}

// Supply returns the total supply of a denom.
func (f *Fork) Supply(denom string) sdk.Int {
	return f.C.App.BankKeeper.GetSupply(f.Ctx, denom).Amount
}

// AllSupply returns the total supply of every denom.
func (f *Fork) AllSupply() sdk.Coins {
	var coins sdk.Coins
	f.C.App.BankKeeper.IterateTotalSupply(f.Ctx, func(c sdk.Coin) bool {
		coins = coins.Add(c)
		return false
	})
	return coins
}

// Fund moves coins from the faucet to an account with an ordinary bank send.
func (f *Fork) Fund(to sdk.AccAddress, coins sdk.Coins) {
	if coins.IsZero() {
		return
	}
	msg := banktypes.NewMsgSend(Acc(AccFaucet).Addr, to, coins)
	if r := f.Exec(msg); !r.OK() {
		panic("fund failed: " + r.String())
	}
}

// KV is one raw store entry.
type KV struct{ K, V []byte }

// DumpPrefix returns all entries of a store below a prefix, in key order.
func (f *Fork) DumpPrefix(store string, prefix []byte) []KV {
	return DumpPrefix(f.C, f.Ctx, store, prefix)
}

func DumpPrefix(c *Chain, ctx sdk.Context, store string, prefix []byte) []KV {
	st := ctx.KVStore(c.StoreKey(store))
	it := sdk.KVStorePrefixIterator(st, prefix)
	defer it.Close()
	var out []KV
	for ; it.Valid(); it.Next() {
		k := append([]byte{}, it.Key()...)
		v := append([]byte{}, it.Value()...)
		out = append(out, KV{k, v})
	}
	return out
}

// WipeStore deletes every key of one module's store in the fork (used to model that module being rebuilt from an
// exported genesis while the rest of the application state stays).
func (f *Fork) WipeStore(store string) {
	st := f.Ctx.KVStore(f.C.StoreKey(store))
	for _, kv := range DumpPrefix(f.C, f.Ctx, store, nil) {
		st.Delete(kv.K)
	}
}

var devNull *os.File

// quiet silences fmt.Printf noise of the code under test (BuyStorage prints ratios) for
// the duration of a call; the returned func restores os.Stdout.
func quiet() func() {
	if devNull == nil {
		devNull, _ = os.OpenFile(os.DevNull, os.O_WRONLY, 0)
	}
	old := os.Stdout
	os.Stdout = devNull
	return func() { os.Stdout = old }
}
