package props

// C12 — payment gauges stream linearly and never release more than the pro-rata deposit.

import (
	"fmt"
	"math/big"
	"sort"
	"strings"
	"testing"
	"time"

	sdk "github.com/cosmos/cosmos-sdk/types"
	"pgregory.net/rapid"

	storagetypes "github.com/jackalLabs/canine-chain/v4/x/storage/types"

	"verifharness/chain"
	"verifharness/ev"
)

type c12Gauge struct {
	Addr     string
	Deposit  map[string]*big.Int // total deposited for this gauge id, per denomination
	Start    time.Time
	End      time.Time
	Cum      map[string]*big.Int // cumulative release observed so far, per denomination
	Inside   map[string]bool
	Made     int
	Finished bool // a reward block after End has been seen
}

// c12GaugeDenom is one denomination's view of a gauge inside the reward-block oracle.
type c12GaugeDenom struct {
	*c12Gauge
	Deposit *big.Int
	Cum     *big.Int
}

type c12World struct {
	*storWorld
	gauges    map[string]*c12Gauge // by gauge account address
	backdated int
	order     []string
}

const c12CheckWindow = 2

var c12Denoms = []string{"ujkl", "uatom"}

func c12Zero() map[string]*big.Int {
	return map[string]*big.Int{"ujkl": new(big.Int), "uatom": new(big.Int)}
}

func c12Show(m map[string]*big.Int) string {
	return fmt.Sprintf("%sujkl,%suatom", m["ujkl"], m["uatom"])
}

func newC12World(c *chain.Chain) *c12World {
	w := &c12World{storWorld: newStorWorld(c, 2), gauges: map[string]*c12Gauge{}}
	w.setParams(func(p *storagetypes.Params) { p.CheckWindow = c12CheckWindow; p.ProofWindow = 5 })
	return w
}

// observeNewGauges registers gauges that appeared in the store (by diffing the PaymentGauges query).
func (w *c12World) observeNewGauges(before map[string]storagetypes.PaymentGauge, balBefore chain.Balances) {
	after := w.gaugeRecords()
	balAfter := w.f.Snapshot()
	for _, a := range sortedGaugeKeys(after) {
		g := after[a]
		funded, any := c12Zero(), false
		for _, d := range c12Denoms {
			funded[d] = balAfter.Get(a, d).Sub(balBefore.Get(a, d)).BigInt()
			any = any || funded[d].Sign() > 0
		}
		if mg, ok := w.gauges[a]; ok {
			if any { // same id created again in the same block: deposits add up
				for _, d := range c12Denoms {
					mg.Deposit[d].Add(mg.Deposit[d], funded[d])
				}
				mg.Made++
				w.logf("gauge %s funded again (+%s), deposit now %s", a[:10], c12Show(funded), c12Show(mg.Deposit))
			}
			continue
		}
		if _, existed := before[a]; existed {
			continue
		}
		start := g.Start
		if start.Before(w.f.Time()) {
			// the deposit was made now: whatever the record says, the gauge's duration cannot have begun before there was
			// anything to stream, so elapsed time is measured from the block of the deposit
			w.logf("gauge %s is recorded as having started at %s, before the block of its deposit", a[:10], g.Start.Format(time.RFC3339Nano))
			start = w.f.Time()
			w.backdated++
		}
		w.gauges[a] = &c12Gauge{Addr: a, Deposit: funded, Start: start, End: g.End, Cum: c12Zero(), Inside: map[string]bool{}, Made: 1}
		w.order = append(w.order, a)
		w.logf("gauge %s created: recorded %s, funded %s, %s .. %s", a[:10], g.Coins, c12Show(funded), g.Start.Format(time.RFC3339Nano), g.End.Format(time.RFC3339Nano))
	}
}

func (w *c12World) gaugeRecords() map[string]storagetypes.PaymentGauge {
	out := map[string]storagetypes.PaymentGauge{}
	for _, g := range w.c.App.StorageKeeper.GetAllPaymentGauges(w.f.Ctx) {
		out[gaugeAddr(g)] = g
	}
	return out
}

func sortedGaugeKeys(m map[string]storagetypes.PaymentGauge) []string {
	out := make([]string, 0, len(m))
	for k := range m {
		out = append(out, k)
	}
	sort.Strings(out)
	return out
}

// keeperGauge mirrors exactly the calls BuyStorage makes (payer -> module, NewGauge, module -> gauge account).
func (w *c12World) keeperGauge(payer chain.Account, amount int64, dur time.Duration) {
	w.keeperGaugeCoins(payer, sdk.NewCoins(sdk.NewInt64Coin("ujkl", amount)), dur)
}

// keeperGaugeCoins: the same calls with a deposit in one or two denominations (NewGauge takes sdk.Coins;
// no message creates a two-denomination gauge, the keeper API and a genesis file can).
func (w *c12World) keeperGaugeCoins(payer chain.Account, coins sdk.Coins, dur time.Duration) {
	before, balBefore := w.gaugeRecords(), w.f.Snapshot()
	ctx, write := w.f.Ctx.CacheContext()
	if err := w.c.App.BankKeeper.SendCoinsFromAccountToModule(ctx, payer.Addr, storagetypes.ModuleName, coins); err != nil {
		w.logf("keeper-level gauge: payer cannot pay %s: %v", coins, err)
		return
	}
	g := w.c.App.StorageKeeper.NewGauge(ctx, coins, ctx.BlockTime().Add(dur))
	acc, err := storagetypes.GetGaugeAccount(g)
	must(err)
	must(w.c.App.BankKeeper.SendCoinsFromModuleToAccount(ctx, storagetypes.ModuleName, acc, coins))
	write()
	w.logf("keeper-level gauge coins=%s dur=%s", coins, dur)
	w.observeNewGauges(before, balBefore)
}

func (w *c12World) purchaseGauge(buyer chain.Account, days, bytes int64) {
	before, balBefore := w.gaugeRecords(), w.f.Snapshot()
	w.buyStorage(buyer, buyer.Bech, days, bytes, "")
	w.observeNewGauges(before, balBefore)
}

func (w *c12World) payOnceGauge(owner chain.Account, size, days int64) {
	before, balBefore := w.gaugeRecords(), w.f.Snapshot()
	content := []byte(fmt.Sprintf("c12-%d-%d-%d", size, days, len(w.trace)))
	msg := &storagetypes.MsgPostFile{Creator: owner.Bech, Merkle: buildFile(content, 1024).Merkle, FileSize: size, MaxProofs: 3,
		Expires: w.f.Height() + days*14400 + 10, Note: "{}"}
	res := w.f.Exec(msg)
	w.logf("pay-once post size=%d days=%d -> %s", size, days, res)
	w.observeNewGauges(before, balBefore)
}

func usec(d time.Duration) *big.Int { return big.NewInt(d.Microseconds()) }

// rewardBlock advances to the next reward height at time t and applies the oracle.
func (w *c12World) rewardBlock(dt time.Duration) (string, string) {
	h := w.f.Height()
	next := h + 1
	for next%c12CheckWindow != 0 {
		next++
	}
	// intermediate (non-reward) heights share the time budget
	for w.f.Height() < next-1 {
		w.f.SetBlock(w.f.Height()+1, w.f.Time())
		if r := w.f.BeginCustom(false, true); r.Panic != nil {
			return "C12/panic", fmt.Sprint(r.Panic)
		}
	}
	w.f.SetBlock(next, w.f.Time().Add(dt))
	t := w.f.Time()
	balBefore := w.f.Snapshot()
	if r := w.f.BeginCustom(false, true); r.Panic != nil {
		return "C12/panic", fmt.Sprintf("reward block at %s panicked: %v", t, r.Panic)
	}
	balAfter := w.f.Snapshot()
	w.logf("reward block at +%s (t=%s)", dt, t.Format(time.RFC3339Nano))
	sumIncs := c12Zero()
	for _, a := range w.order {
		for _, denom := range c12Denoms {
			g := &c12GaugeDenom{w.gauges[a], w.gauges[a].Deposit[denom], w.gauges[a].Cum[denom]}
			sumInc := sumIncs[denom]
			bal := balAfter.Get(a, denom).BigInt()
			cum := new(big.Int).Sub(g.Deposit, bal)
			inc := new(big.Int).Sub(cum, g.Cum)
			sumInc.Add(sumInc, inc)
			a := a[:10] + "/" + denom
			shape := "single"
			if g.Made > 1 {
				shape = "same-height-same-end-same-coins"
			}
			if inc.Sign() < 0 {
				return "C12/decreasing", fmt.Sprintf("gauge %s: cumulative release went from %s to %s", a, g.Cum, cum)
			}
			if cum.Cmp(g.Deposit) > 0 {
				return "C12/over-release", fmt.Sprintf("gauge %s released %s of a deposit of %s", a, cum, g.Deposit)
			}
			switch {
			case t.Before(g.Start):
				if inc.Sign() != 0 {
					return "C12/release-before-start", fmt.Sprintf("gauge %s released %s before its start", a, inc)
				}
			case t.After(g.End):
				if inc.Sign() != 0 {
					return "C12/release-after-end", fmt.Sprintf("gauge %s (end %s) released %s at %s", a, g.End.Format(time.RFC3339Nano), inc, t.Format(time.RFC3339Nano))
				}
				defer func(g *c12Gauge) { g.Finished = true }(g.c12Gauge)
			default:
				if g.Finished {
					return "C12/harness", "time went backwards"
				}
				total := usec(g.End.Sub(g.Start))
				left := usec(g.End.Sub(t))
				if total.Sign() <= 0 {
					break // zero-length (in whole microseconds) gauges are removed unreleased
				}
				elapsed := new(big.Int).Sub(total, left)
				want := new(big.Int).Mul(g.Deposit, elapsed)
				want.Quo(want, total)
				d := new(big.Int).Sub(cum, want)
				if d.CmpAbs(big.NewInt(1)) > 0 {
					return "C12/linear-release/" + shape, fmt.Sprintf("gauge %s deposit %s, elapsed %s of %s us: cumulative release %s, pro-rata amount %s", a, g.Deposit, elapsed, total, cum, want)
				}
				if elapsed.Sign() > 0 && left.Sign() > 0 {
					g.Inside[elapsed.String()] = true
				}
			}
			g.c12Gauge.Cum[denom] = cum
		}
	}
	// the reward pool (storage module account; nobody is paid in this world) received exactly the increments
	for _, denom := range c12Denoms {
		modDelta := balAfter.Get(storageModuleAddr, denom).Sub(balBefore.Get(storageModuleAddr, denom)).BigInt()
		if modDelta.Cmp(sumIncs[denom]) != 0 {
			return "C12/pool-credit", fmt.Sprintf("gauges released %s%s in total, storage module account changed by %s", sumIncs[denom], denom, modDelta)
		}
	}
	for _, d := range balBefore.Diff(balAfter) {
		if _, isGauge := w.gauges[d.Addr]; !isGauge && d.Addr != storageModuleAddr {
			return "C12/other-account", fmt.Sprintf("%s changed by %s%s in a reward block", d.Addr, d.Diff, d.Denom)
		}
	}
	return "", ""
}

func (w *c12World) nontrivial() bool {
	for _, g := range w.gauges {
		if len(g.Inside) >= 2 {
			return true
		}
	}
	return false
}

func TestC12(t *testing.T) {
	rec := ev.For("C12")
	rec.Describe("fork-mode schedules: 1-5 (one schedule in forty: 101-140) concurrently live gauges created by real BuyStorage purchases, pay-once PostFile messages and the same keeper calls BuyStorage makes (amounts 0..1e15 ujkl, a third of them with a second deposit of 1..1e15 uatom in the same gauge, durations 1us..10y), including two created at the same height with equal end and coins; reward blocks at generated time increments {0, 1us, 1s, 6s, hours, days, beyond the end}. Oracle per gauge, denomination and reward block with big.Int: cumulative release (= deposit - account balance) within 1 of floor(deposit*elapsed_us/total_us), non-decreasing, <= deposit, nothing outside [start,end]; storage module account credited exactly the sum of increments. Non-trivial = >=2 reward blocks strictly inside one gauge's interval at different elapsed fractions; distinct = distinct traces.",
		"no provers exist in this world, so nothing leaves the reward pool in a reward block",
		"a gauge's remaining balance after its end is never released by the code; only 'nothing more is released' is asserted there",
		"coin amounts <= 1e15 base units (18-decimal sdk.Dec rounding stays far below one base unit)")
	c := chain.New(chain.GenesisOpts{NumAccounts: 3, Balance: sdk.NewCoins(sdk.NewInt64Coin("ujkl", 4_000_000_000_000_000), sdk.NewInt64Coin("uatom", 4_000_000_000_000_000), sdk.NewInt64Coin("ibc/voucher", 1_000_000))})
	defer c.Close()

	// ---- plain regression replay: two equal purchases by different accounts in one block ----
	{
		w := newC12World(c)
		w.purchaseGauge(chain.Acc(0), 30, 3_000_000_000_000)
		w.purchaseGauge(chain.Acc(1), 30, 3_000_000_000_000)
		sig, msg := w.rewardBlock(24 * time.Hour)
		if sig == "" {
			sig, msg = w.rewardBlock(24 * time.Hour)
		}
		rec.Regress("C12/linear-release/same-height-same-end-same-coins", sig != "", msg+" | "+strings.Join(w.trace, " ; "))
	}
	if os_only_regress() {
		return
	}
	excludeCollision := ev.Known("C12/linear-release/same-height-same-end-same-coins")

	search(t, rec, "schedule", budget(2500, 640000), 0, func(rt *rapid.T) {
		w := newC12World(c)
		durs := []time.Duration{time.Microsecond, 7 * time.Microsecond, time.Second, 90 * time.Second, time.Hour, 24 * time.Hour, 30 * 24 * time.Hour, 3650 * 24 * time.Hour}
		incs := []time.Duration{0, time.Microsecond, 3 * time.Microsecond, time.Second, 6 * time.Second, 17 * time.Minute, time.Hour, 5 * time.Hour, 24 * time.Hour, 9 * 24 * time.Hour, 40 * 24 * time.Hour, 400 * 24 * time.Hour}
		create := func() {
			payer := chain.Acc(rapid.IntRange(0, 2).Draw(rt, "payer"))
			switch rapid.IntRange(0, 5).Draw(rt, "how") {
			case 0:
				w.purchaseGauge(payer, rapid.SampledFrom([]int64{30, 31, 365, 366, 730}).Draw(rt, "days"), rapid.SampledFrom([]int64{1_000_000_000, 3_000_000_000_000, 6_000_000_000_000}).Draw(rt, "bytes"))
			case 1:
				w.payOnceGauge(payer, rapid.SampledFrom([]int64{1000, 5_000_000_000, 900_000_000_000}).Draw(rt, "size"), rapid.Int64Range(1, 40).Draw(rt, "days"))
			default:
				amt := rapid.OneOf(rapid.Int64Range(0, 50), rapid.Int64Range(1, 1_000_000), rapid.Int64Range(1, 1_000_000_000_000_000)).Draw(rt, "amount")
				dur := rapid.SampledFrom(durs).Draw(rt, "dur")
				if rapid.Bool().Draw(rt, "oddDur") {
					// odd durations, but in whole microseconds: real gauges last whole days, and two gauges whose ends
					// differ by less than a microsecond (which would share an id) cannot be produced by any message
					dur += time.Duration(rapid.Int64Range(0, 999_999).Draw(rt, "us")) * time.Microsecond
				}
				coins := sdk.NewCoins(sdk.NewInt64Coin("ujkl", amt))
				if rapid.IntRange(0, 2).Draw(rt, "secondDenom") == 0 { // a deposit in two denominations, each streams on its own
					amt2 := rapid.OneOf(rapid.Int64Range(1, 50), rapid.Int64Range(1, 1_000_000_000_000_000)).Draw(rt, "amount2")
					coins = coins.Add(sdk.NewInt64Coin("uatom", amt2))
					rec.Count("two-denomination-gauges")
				}
				w.keeperGaugeCoins(payer, coins, dur)
				if rapid.IntRange(0, 3).Draw(rt, "twin") == 0 { // the coincidence the property names
					if excludeCollision {
						rec.Exclude("C12/linear-release/same-height-same-end-same-coins")
					} else {
						for k, more := 0, rapid.SampledFrom([]int{1, 1, 2, 3}).Draw(rt, "howManyMore"); k < more; k++ { // twins, triplets, quadruplets
							w.keeperGaugeCoins(chain.Acc(rapid.IntRange(0, 2).Draw(rt, "payer2")), coins, dur)
						}
						rec.Count("twin-gauges")
					}
				}
			}
		}
		n := rapid.IntRange(1, 3).Draw(rt, "initialGauges")
		for i := 0; i < n; i++ {
			create()
		}
		if rapid.IntRange(0, 39).Draw(rt, "manyGauges") == 0 {
			// a busy chain: more than a hundred live gauges at once (every purchase and every pay-once post makes one)
			m := rapid.IntRange(101, 140).Draw(rt, "howMany")
			for i := 0; i < m; i++ {
				w.keeperGauge(chain.Acc(i%3), int64(1_000_000+i*7919), time.Duration(30+i)*24*time.Hour)
			}
			w.trace = append(w.trace[:0:0], fmt.Sprintf("... %d keeper-level gauges of 1000000+7919*i ujkl lasting 30+i days ...", m))
			rec.Count("schedules-with-more-than-100-live-gauges")
		}
		steps := rapid.IntRange(2, 12).Draw(rt, "blocks")
		for i := 0; i < steps; i++ {
			if len(w.order) > 0 && rapid.IntRange(0, 7).Draw(rt, "gift") == 0 {
				// anybody can send coins to a gauge account (its address derives from the public gauge id); a gift in a
				// denomination the gauge never held is not part of any deposit and must not disturb the streaming of the deposits
				g := w.order[rapid.IntRange(0, len(w.order)-1).Draw(rt, "giftTo")]
				to, err := sdk.AccAddressFromBech32(g)
				must(err)
				gift := sdk.NewCoins(sdk.NewInt64Coin("ibc/voucher", rapid.Int64Range(1, 5).Draw(rt, "giftAmount")))
				if w.c.App.BankKeeper.SendCoins(w.f.Ctx, chain.Acc(0).Addr, to, gift) == nil {
					w.logf("gift of %s to gauge %s", gift, g[:10])
					rec.Count("gifts-in-a-foreign-denomination")
				}
			}
			if (len(w.gauges) < 5 || len(w.gauges) > 100) && rapid.IntRange(0, 5).Draw(rt, "createMore") == 0 {
				create()
			}
			var dt time.Duration
			// choose an increment relative to a live gauge's remaining time in half of the cases
			live := []*c12Gauge{}
			for _, a := range w.order {
				if g := w.gauges[a]; !g.Finished && g.End.After(w.f.Time()) {
					live = append(live, g)
				}
			}
			if len(live) > 0 && rapid.Bool().Draw(rt, "relative") {
				g := live[rapid.IntRange(0, len(live)-1).Draw(rt, "which")]
				rem := g.End.Sub(w.f.Time())
				dt = time.Duration(int64(rem) / 1000 * rapid.Int64Range(0, 1100).Draw(rt, "permille"))
			} else {
				dt = rapid.SampledFrom(incs).Draw(rt, "dt")
			}
			if sig, msg := w.rewardBlock(dt); sig != "" {
				failf(rt, rec, sig, w.trace, "%s", msg)
			}
		}
		rec.Count(fmt.Sprintf("gauges=%d", len(w.gauges)))
		rec.Case(w.nontrivial(), ev.Hash(w.trace...), func() interface{} { return w.trace })
	})
}
