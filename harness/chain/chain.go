// Package chain is the "chain driver" of the verification harness: it assembles a
// real JackalApp on an in-memory database, brings it to InitChain with a generated
// genesis and offers two ways of driving it: fork mode (work on a CacheContext of the
// deliver state, never commit) and abci mode (BeginBlock/DeliverTx/EndBlock/Commit
// with signed transactions).  Messages are always executed with baseapp.runMsgs
// semantics: ValidateBasic -> routed handler on a cache-wrapped store -> write back
// iff the handler returned a nil error; a panic inside a handler is a failed tx.
package chain

import (
	"encoding/json"
	"fmt"
	"os"
	"path/filepath"
	"sort"
	"sync"
	"time"

	"github.com/CosmWasm/wasmd/x/wasm"
	wasmtypes "github.com/CosmWasm/wasmd/x/wasm/types"
	"github.com/cosmos/cosmos-sdk/baseapp"
	codectypes "github.com/cosmos/cosmos-sdk/codec/types"
	cryptocodec "github.com/cosmos/cosmos-sdk/crypto/codec"
	"github.com/cosmos/cosmos-sdk/crypto/keys/ed25519"
	"github.com/cosmos/cosmos-sdk/crypto/keys/secp256k1"
	servertypes "github.com/cosmos/cosmos-sdk/server/types"
	"github.com/cosmos/cosmos-sdk/store"
	"github.com/cosmos/cosmos-sdk/store/rootmulti"
	storetypes "github.com/cosmos/cosmos-sdk/store/types"
	sdk "github.com/cosmos/cosmos-sdk/types"
	authtypes "github.com/cosmos/cosmos-sdk/x/auth/types"
	banktypes "github.com/cosmos/cosmos-sdk/x/bank/types"
	stakingtypes "github.com/cosmos/cosmos-sdk/x/staking/types"
	abci "github.com/tendermint/tendermint/abci/types"
	"github.com/tendermint/tendermint/libs/log"
	tmproto "github.com/tendermint/tendermint/proto/tendermint/types"
	tmtypes "github.com/tendermint/tendermint/types"
	dbm "github.com/tendermint/tm-db"

	"github.com/jackalLabs/canine-chain/v4/app"
	minttypes "github.com/jackalLabs/canine-chain/v4/x/jklmint/types"
	oracletypes "github.com/jackalLabs/canine-chain/v4/x/oracle/types"
	rnstypes "github.com/jackalLabs/canine-chain/v4/x/rns/types"
	storagetypes "github.com/jackalLabs/canine-chain/v4/x/storage/types"
)

const (
	ChainID = "verif-1"
	Denom   = "ujkl"
)

var (
	configOnce sync.Once
	// GenesisTime is the fixed time of the genesis block; all block times in the
	// harness are derived from it plus generated offsets (never from the wall clock).
	GenesisTime = time.Date(2024, 1, 1, 0, 0, 0, 0, time.UTC)
)

// InitConfig sets the jkl bech32 prefixes exactly as cmd/canined does.
func InitConfig() {
	configOnce.Do(func() {
		cfg := sdk.GetConfig()
		cfg.SetBech32PrefixForAccount(app.Bech32PrefixAccAddr, app.Bech32PrefixAccPub)
		cfg.SetBech32PrefixForValidator(app.Bech32PrefixValAddr, app.Bech32PrefixValPub)
		cfg.SetBech32PrefixForConsensusNode(app.Bech32PrefixConsAddr, app.Bech32PrefixConsPub)
		cfg.SetAddressVerifier(wasmtypes.VerifyAddressLen())
		cfg.Seal()
	})
}

// Account is a deterministic test account (key derived from its index).
type Account struct {
	Index int
	Priv  *secp256k1.PrivKey
	Addr  sdk.AccAddress
	Bech  string
}

var (
	accMu    sync.Mutex
	accCache = map[int]Account{}
)

// Acc returns the i-th deterministic account.
func Acc(i int) Account {
	InitConfig()
	accMu.Lock()
	defer accMu.Unlock()
	if a, ok := accCache[i]; ok {
		return a
	}
	priv := secp256k1.GenPrivKeyFromSecret([]byte(fmt.Sprintf("verif-account-%d", i)))
	addr := sdk.AccAddress(priv.PubKey().Address())
	a := Account{Index: i, Priv: priv, Addr: addr, Bech: addr.String()}
	accCache[i] = a
	return a
}

// Well-known harness-owned accounts used in parameters.
const (
	AccDeposit = 900 // storage DepositAccount / oracle Deposit
	AccStipend = 901 // jklmint StorageStipendAddress
	AccFaucet  = 999 // holds the spare supply; tops accounts up through bank sends
)

// GenesisOpts describes the generated part of a genesis.
type GenesisOpts struct {
	NumAccounts int       // accounts Acc(0..n-1) exist with Balance each
	Balance     sdk.Coins // per account
	Faucet      sdk.Coins // balance of Acc(AccFaucet); nil = none
	Storage     *storagetypes.Params
	Mint        *minttypes.Params
	Rns         *rnstypes.Params
	Oracle      *oracletypes.Params
	// NodeConfig is operator-local configuration (what app.toml / start flags carry: minimum-gas-prices, pruning,
	// caches, event indexing ...). It must not influence what block execution returns or commits.
	NodeConfig map[string]interface{}
	// Time is the genesis time (zero value: GenesisTime).
	Time time.Time
	// Raw replaces whole module sections after everything else (C19's import side).
	Raw map[string]json.RawMessage
}

// nodeConfig serves operator-local settings through the AppOptions interface the application constructor reads.
type nodeConfig map[string]interface{}

func (n nodeConfig) Get(k string) interface{} { return n[k] }

// Chain is an assembled application after InitChain.
type Chain struct {
	App    *app.JackalApp
	Home   string
	Opts   GenesisOpts
	ValSet *tmtypes.ValidatorSet
	Height int64 // last begun height in abci mode
	Time   time.Time
	keys   map[string]storetypes.StoreKey

	AccNums map[string]uint64
	Seqs    map[string]uint64
	Genesis app.GenesisState
}

var (
	workDirOnce sync.Once
	workDir     string
	homeCounter int
	homeMu      sync.Mutex
)

// WorkDir returns a per-process scratch directory below $VERIF_WORK.
func WorkDir() string {
	workDirOnce.Do(func() {
		base := os.Getenv("VERIF_WORK")
		if base == "" {
			base = filepath.Join(os.TempDir(), "verif-work")
		}
		workDir = filepath.Join(base, fmt.Sprintf("p%d", os.Getpid()))
		_ = os.MkdirAll(workDir, 0o755)
	})
	return workDir
}

// CleanWorkDir removes this process's scratch directory.
func CleanWorkDir() {
	if workDir != "" {
		_ = os.RemoveAll(workDir)
	}
}

// DefaultStorageParams returns storage params with jkl addresses filled in.
func DefaultStorageParams() storagetypes.Params {
	p := storagetypes.DefaultParams()
	p.DepositAccount = Acc(AccDeposit).Bech
	return p
}

// DefaultMintParams returns jklmint defaults with a harness-owned stipend address.
func DefaultMintParams() minttypes.Params {
	p := minttypes.DefaultParams()
	p.StorageStipendAddress = Acc(AccStipend).Bech
	return p
}

// DefaultOracleParams returns oracle params with a jkl deposit address.
func DefaultOracleParams() oracletypes.Params {
	p := oracletypes.DefaultParams()
	p.Deposit = Acc(AccDeposit).Bech
	return p
}

var valPriv = ed25519.GenPrivKeyFromSecret([]byte("verif-validator"))

// New assembles an app and runs InitChain with the generated genesis.  The deliver
// state is left uncommitted at "height 0"; fork mode forks it, abci mode goes on with
// BeginBlock at height 1.
func New(opts GenesisOpts) *Chain {
	InitConfig()
	homeMu.Lock()
	homeCounter++
	home := filepath.Join(WorkDir(), fmt.Sprintf("home%d", homeCounter))
	homeMu.Unlock()
	_ = os.MkdirAll(home, 0o755)

	db := dbm.NewMemDB()
	enc := app.MakeEncodingConfig()
	var appOpts servertypes.AppOptions = app.EmptyBaseAppOptions{}
	var baseOpts []func(*baseapp.BaseApp)
	if opts.NodeConfig != nil {
		appOpts = nodeConfig(opts.NodeConfig)
		if v, ok := opts.NodeConfig["minimum-gas-prices"].(string); ok {
			baseOpts = append(baseOpts, baseapp.SetMinGasPrices(v))
		}
		if v, ok := opts.NodeConfig["index-events"].([]string); ok {
			baseOpts = append(baseOpts, baseapp.SetIndexEvents(v))
		}
		if v, ok := opts.NodeConfig["inter-block-cache"].(bool); ok && v {
			baseOpts = append(baseOpts, baseapp.SetInterBlockCache(store.NewCommitKVStoreCacheManager()))
		}
	}
	a := app.NewJackalApp(log.NewNopLogger(), db, nil, true, map[int64]bool{}, home, 0, enc,
		wasm.EnableAllProposals, appOpts, nil, baseOpts...)
	cdc := a.AppCodec()

	gs := app.NewDefaultGenesisState()

	// validator
	tmPub, err := cryptocodec.ToTmPubKeyInterface(valPriv.PubKey())
	must(err)
	val := tmtypes.NewValidator(tmPub, 1)
	valSet := tmtypes.NewValidatorSet([]*tmtypes.Validator{val})

	// accounts
	var genAccs []authtypes.GenesisAccount
	var balances []banktypes.Balance
	total := sdk.NewCoins()
	addAcc := func(acc Account, coins sdk.Coins) {
		genAccs = append(genAccs, authtypes.NewBaseAccount(acc.Addr, nil, uint64(len(genAccs)), 0))
		if !coins.IsZero() {
			balances = append(balances, banktypes.Balance{Address: acc.Bech, Coins: coins})
			total = total.Add(coins...)
		}
	}
	addAcc(Acc(AccFaucet), opts.Faucet)
	for i := 0; i < opts.NumAccounts; i++ {
		addAcc(Acc(i), opts.Balance)
	}
	gs[authtypes.ModuleName] = cdc.MustMarshalJSON(authtypes.NewGenesisState(authtypes.DefaultParams(), genAccs))

	// staking: one bonded validator delegated to by the faucet
	bondAmt := sdk.NewInt(1000000)
	pk, err := cryptocodec.FromTmPubKeyInterface(val.PubKey)
	must(err)
	pkAny, err := codectypes.NewAnyWithValue(pk)
	must(err)
	validator := stakingtypes.Validator{
		OperatorAddress:   sdk.ValAddress(val.Address).String(),
		ConsensusPubkey:   pkAny,
		Status:            stakingtypes.Bonded,
		Tokens:            bondAmt,
		DelegatorShares:   sdk.OneDec(),
		UnbondingTime:     time.Unix(0, 0).UTC(),
		Commission:        stakingtypes.NewCommission(sdk.ZeroDec(), sdk.ZeroDec(), sdk.ZeroDec()),
		MinSelfDelegation: sdk.ZeroInt(),
	}
	delegation := stakingtypes.NewDelegation(Acc(AccFaucet).Addr, val.Address.Bytes(), sdk.OneDec())
	stParams := stakingtypes.DefaultParams()
	gs[stakingtypes.ModuleName] = cdc.MustMarshalJSON(stakingtypes.NewGenesisState(stParams,
		[]stakingtypes.Validator{validator}, []stakingtypes.Delegation{delegation}))
	bonded := sdk.NewCoins(sdk.NewCoin(sdk.DefaultBondDenom, bondAmt))
	balances = append(balances, banktypes.Balance{
		Address: authtypes.NewModuleAddress(stakingtypes.BondedPoolName).String(),
		Coins:   bonded,
	})
	total = total.Add(bonded...)
	gs[banktypes.ModuleName] = cdc.MustMarshalJSON(banktypes.NewGenesisState(
		banktypes.DefaultGenesisState().Params, balances, total, []banktypes.Metadata{}))

	// custom module params
	sp := DefaultStorageParams()
	if opts.Storage != nil {
		sp = *opts.Storage
	}
	sg := storagetypes.DefaultGenesis()
	sg.Params = sp
	gs[storagetypes.ModuleName] = cdc.MustMarshalJSON(sg)

	mp := DefaultMintParams()
	if opts.Mint != nil {
		mp = *opts.Mint
	}
	mg := minttypes.DefaultGenesis()
	mg.Params = mp
	gs[minttypes.ModuleName] = cdc.MustMarshalJSON(mg)

	op := DefaultOracleParams()
	if opts.Oracle != nil {
		op = *opts.Oracle
	}
	og := oracletypes.DefaultGenesis()
	og.Params = op
	gs[oracletypes.ModuleName] = cdc.MustMarshalJSON(og)

	if opts.Rns != nil {
		rg := rnstypes.DefaultGenesis()
		rg.Params = *opts.Rns
		gs[rnstypes.ModuleName] = cdc.MustMarshalJSON(rg)
	}
	for _, k := range sortedKeys(opts.Raw) {
		gs[k] = opts.Raw[k]
	}

	stateBytes, err := json.Marshal(gs)
	must(err)
	genTime := GenesisTime
	if !opts.Time.IsZero() {
		genTime = opts.Time
	}
	a.InitChain(abci.RequestInitChain{
		ChainId:         ChainID,
		Time:            genTime,
		Validators:      []abci.ValidatorUpdate{},
		ConsensusParams: app.DefaultConsensusParams,
		AppStateBytes:   stateBytes,
	})

	c := &Chain{App: a, Home: home, Opts: opts, ValSet: valSet, Time: genTime,
		AccNums: map[string]uint64{}, Seqs: map[string]uint64{}, Genesis: gs}
	for i, ga := range genAccs {
		c.AccNums[ga.GetAddress().String()] = uint64(i)
	}
	c.keys = map[string]storetypes.StoreKey{}
	for k := range a.CommitMultiStore().(*rootmulti.Store).GetStores() {
		c.keys[k.Name()] = k
	}
	return c
}

// Close releases the scratch home of the chain.
func (c *Chain) Close() {
	_ = os.RemoveAll(c.Home)
}

// StoreKey returns the store key registered under a name ("storage", "rns", ...).
func (c *Chain) StoreKey(name string) storetypes.StoreKey {
	k, ok := c.keys[name]
	if !ok {
		panic("no store key " + name)
	}
	return k
}

// BaseCtx returns a context over the uncommitted deliver state.
func (c *Chain) BaseCtx(height int64, t time.Time) sdk.Context {
	hdr := tmproto.Header{ChainID: ChainID, Height: height, Time: t,
		ProposerAddress: c.ValSet.Validators[0].Address}
	return c.App.BaseApp.NewContext(false, hdr).
		WithBlockGasMeter(sdk.NewInfiniteGasMeter()).
		WithGasMeter(sdk.NewInfiniteGasMeter())
}

func must(err error) {
	if err != nil {
		panic(err)
	}
}

func sortedKeys[V any](m map[string]V) []string {
	out := make([]string, 0, len(m))
	for k := range m {
		out = append(out, k)
	}
	sort.Strings(out)
	return out
}
