package props

// C11 — every message is authenticated as its creator and touches only its own resources.

import (
	"bytes"
	"encoding/json"
	"fmt"
	wasmkeeper "github.com/CosmWasm/wasmd/x/wasm/keeper"
	wasmvmtypes "github.com/CosmWasm/wasmvm/types"
	"reflect"
	"sort"
	"strings"
	"testing"
	"time"

	sdk "github.com/cosmos/cosmos-sdk/types"
	"github.com/cosmos/cosmos-sdk/types/bech32"
	"github.com/gogo/protobuf/proto"
	"pgregory.net/rapid"

	"github.com/jackalLabs/canine-chain/v4/wasmbinding"
	notiftypes "github.com/jackalLabs/canine-chain/v4/x/notifications/types"
	oracletypes "github.com/jackalLabs/canine-chain/v4/x/oracle/types"
	rnstypes "github.com/jackalLabs/canine-chain/v4/x/rns/types"
	storagetypes "github.com/jackalLabs/canine-chain/v4/x/storage/types"

	"verifharness/chain"
	"verifharness/ev"
)

// c11Owned dumps, per owner address, the resources the property says belong to that owner.
func c11Owned(w *storWorld) map[string]map[string]string {
	out := map[string]map[string]string{}
	put := func(owner, key, val string) {
		if out[owner] == nil {
			out[owner] = map[string]string{}
		}
		out[owner][key] = val
	}
	cdc := w.c.App.AppCodec()
	for _, p := range w.c.App.StorageKeeper.GetAllProviders(w.f.Ctx) {
		p := p
		put(p.Address, "provider", string(cdc.MustMarshal(&p)))
	}
	for _, c := range w.c.App.StorageKeeper.GetAllCollateral(w.f.Ctx) {
		put(c.Address, "collateral", fmt.Sprint(c.Amount))
	}
	for _, f := range w.c.App.OracleKeeper.GetAllFeeds(w.f.Ctx) {
		f := f
		put(f.Owner, "feed:"+f.Name, string(cdc.MustMarshal(&f))) // the whole record: data, owner and time of the last update
	}
	for _, kv := range w.f.DumpPrefix(notiftypes.StoreKey, []byte(notiftypes.NotificationsKeyPrefix)) {
		key := string(kv.K[len(notiftypes.NotificationsKeyPrefix):])
		parts := strings.Split(key, "/")
		if len(parts) == 3 {
			put(parts[0], "inbox:"+key, string(kv.V))
		} else {
			put(parts[0], "block:"+key, string(kv.V))
		}
	}
	for _, kv := range w.f.DumpPrefix(rnstypes.StoreKey, []byte(rnstypes.PrimaryNameKeyPrefix)) {
		owner := strings.TrimSuffix(string(kv.K[len(rnstypes.PrimaryNameKeyPrefix):]), "/")
		// a pointer is its holder's resource while it points at a live name the holder owns; a pointer left dangling by a
		// transfer, a sale or an expiry is nobody's (what becomes of it is not judged)
		kind := "primary-name-dangling"
		for _, n := range w.c.App.RnsKeeper.GetAllNames(w.f.Ctx) {
			if n.Name+"."+n.Tld == string(kv.V) && n.Value == owner && w.f.Height() < n.Expires {
				kind = "primary-name"
			}
		}
		put(owner, kind, string(kv.V))
	}
	for _, f := range w.c.App.StorageKeeper.GetAllFileByOwner(w.f.Ctx) {
		put(f.Owner, "file:"+fileKey(f.Merkle, f.Owner, f.Start), "exists")
		// the proof records behind the file's prover list belong to the file (and so to its owner): without them the
		// chain drops the provers and then the file
		for _, pk := range f.Proofs {
			prover := strings.SplitN(pk, "/", 2)[0]
			if _, found := w.c.App.StorageKeeper.GetProof(w.f.Ctx, prover, f.Merkle, f.Owner, f.Start); found {
				put(f.Owner, "file-proof:"+fileKey(f.Merkle, f.Owner, f.Start)+":"+prover, "exists")
			}
		}
	}
	return out
}

// c11Compare: after a message signed by signer, nobody else's resources changed (an inbox may gain
// notifications newly created by the signer).
func c11Compare(before, after map[string]map[string]string, signer string, what string) (string, string) {
	return c11CompareScoped(before, after, signer, what, "", nil)
}

// c11Manages says whether a message type is one of those the property names as managing that kind of resource
// ("messages that manage a provider record, an oracle feed, a notification inbox or block list, a primary-name or
// storage-file deletion"). What other message types do to those resources is outside the statement: it is counted.
func c11Manages(url, kind string) bool {
	has := func(parts ...string) bool {
		for _, p := range parts {
			if strings.Contains(url, p) {
				return true
			}
		}
		return false
	}
	switch kind {
	case "provider", "collateral":
		return has(".storage.MsgSetProvider", ".storage.MsgAddClaimer", ".storage.MsgRemoveClaimer", ".storage.MsgInitProvider", ".storage.MsgShutdownProvider")
	case "feed":
		return has(".oracle.Msg")
	case "inbox", "block":
		return has(".notifications.Msg")
	case "primary-name":
		return has(".rns.MsgMakePrimary", ".rns.MsgRegister") // registrations carry a set-primary flag: they manage primary names too
	case "primary-name-dangling":
		return false
	case "file", "file-proof":
		return has(".storage.MsgDeleteFile")
	}
	return true
}

func c11CompareScoped(before, after map[string]map[string]string, signer string, what string, url string, outOfScope *int) (string, string) {
	inScope := func(k string) bool {
		if url == "" || c11Manages(url, strings.SplitN(k, ":", 2)[0]) {
			return true
		}
		if outOfScope != nil {
			*outOfScope++
		}
		return false
	}
	owners := map[string]bool{}
	for o := range before {
		owners[o] = true
	}
	for o := range after {
		owners[o] = true
	}
	for _, o := range sortedStrings(owners) {
		if o == signer {
			continue
		}
		b, a := before[o], after[o]
		for k, v := range b {
			av, ok := a[k]
			if !ok && !inScope(k) {
				continue
			}
			if !ok {
				return "C11/foreign-resource-removed/" + strings.SplitN(k, ":", 2)[0], fmt.Sprintf("%s signed by %s removed %s of %s", what, short(signer), trunc(k, 60), short(o))
			}
			if av != v && strings.HasPrefix(k, "inbox:") {
				// a notification the signer itself sent to o earlier in the same block: a second send with the same
				// (recipient, sender, timestamp) replaces it (C18's reading); that is the signer's own message
				if parts := strings.Split(strings.TrimPrefix(k, "inbox:"), "/"); len(parts) == 3 && parts[1] == signer {
					continue
				}
			}
			if av != v && !inScope(k) {
				continue
			}
			if av != v {
				return "C11/foreign-resource-changed/" + strings.SplitN(k, ":", 2)[0], fmt.Sprintf("%s signed by %s changed %s of %s", what, short(signer), trunc(k, 60), short(o))
			}
		}
		for k := range a {
			if _, ok := b[k]; ok {
				continue
			}
			if strings.HasPrefix(k, "inbox:") {
				parts := strings.Split(strings.TrimPrefix(k, "inbox:"), "/")
				if len(parts) == 3 && parts[1] == signer {
					continue // a notification the signer sent to o
				}
			}
			if !inScope(k) {
				continue
			}
			return "C11/foreign-resource-created/" + strings.SplitN(k, ":", 2)[0], fmt.Sprintf("%s signed by %s created %s for %s", what, short(signer), trunc(k, 60), short(o))
		}
	}
	return "", ""
}

func TestC11(t *testing.T) {
	rec := ev.For("C11")
	rec.Describe("(a) programs x inputs: the request types of the custom Msg services are enumerated from the app's interface registry (45 at the pinned commit; every registered type must be routable); for each type every field is filled by reflection, in one family with a distinct valid address in every string field, in another with generic values; GetSigners() must be exactly [Creator], the router must have a handler, and the message must survive a TxConfig encode/decode round trip. (b) abci: for every type a transaction whose message names creator A but is signed only by B must be rejected before execution (no sequence bump, no state change), the same message signed by A must pass the ante handler (sequence bumps). (c) fork histories: owners set up provider records + collateral + claimers, oracle feeds, inboxes, block lists, primary names and stored files; then arbitrary messages of all types (fields drawn from pools that contain the owners' resources) are signed by every account; after each message of a type the property names as managing a kind of resource (provider messages: provider record and collateral; oracle messages: feeds; notification messages: inbox and block list; MakePrimary and the registration messages (which carry a set-primary flag): primary-name pointers that point at a live name of their holder; DeleteFile: stored files and their proof records) those resources of every non-signer must be unchanged (an inbox may gain what the signer just sent); what other message types do to them is counted, not judged; wasmbinding.PerformPostFile must fail unless msg.Creator == contract. Non-trivial = (a) a type with >= 2 string fields filled with distinct addresses, (c) a history in which a non-owner aimed an owner-only message type at an existing resource; distinct = distinct cases.",
		"contract execution itself is not exercised (no wasm binaries offline); the binding is exercised at PerformPostFile")
	c := chain.New(chain.GenesisOpts{NumAccounts: 8, Balance: sdk.NewCoins(sdk.NewInt64Coin("ujkl", 1_000_000_000_000_000))})
	defer c.Close()
	urls := customMsgURLs(c)
	if os_only_regress() {
		return
	}

	// ---------- (a) ----------
	t.Run("enumerate", func(t *testing.T) {
		if len(urls) == 0 {
			rec.Fail(ev.Violation{Sig: "C11/harness", Message: "no custom message type is registered: the enumeration is broken"})
			rec.Flush("enumerate", 0, "")
			t.Errorf("message count %d", len(urls))
		}
		rec.Note("custom message types registered: %d (45 at the pinned commit; every registered type is checked, whatever the number)", len(urls))
		for _, u := range urls {
			if c.App.MsgServiceRouter().HandlerByTypeURL(u) == nil {
				rec.Fail(ev.Violation{Sig: "C11/unroutable", Message: u + " has no handler"})
				rec.Flush("enumerate", 0, "")
				t.Errorf("unroutable %s", u)
			}
		}
		rec.Add("message-types", int64(len(urls)))
	})
	addrs := make([]string, 12)
	for i := range addrs {
		addrs[i] = chain.Acc(100 + i).Bech
	}
	txCfg := chainTxConfig()
	search(t, rec, "signers", budget(45*60, 45*3000), 0, func(rt *rapid.T) {
		u := urls[rapid.IntRange(0, len(urls)-1).Draw(rt, "type")]
		m := newMsgOf(c, u)
		distinct := rapid.Bool().Draw(rt, "distinctAddresses")
		env := &fillEnv{Accounts: addrs, Names: []string{"abc.jkl"}, Strings: []string{hexsha("x")}}
		nStr := 0
		if distinct {
			perm := rapid.Permutation(addrs).Draw(rt, "addresses")
			fillMsg(rt, m, env, perm)
			v := reflect.ValueOf(m).Elem()
			for i := 0; i < v.NumField(); i++ {
				if v.Field(i).Kind() == reflect.String {
					nStr++
				}
			}
		} else {
			fillMsg(rt, m, env, nil)
		}
		creator := reflect.ValueOf(m).Elem().FieldByName("Creator")
		if !creator.IsValid() {
			failf(rt, rec, "C11/no-creator-field", msgSummary(m), "%s has no Creator field", u)
		}
		var signers []sdk.AccAddress
		func() {
			defer func() {
				if r := recover(); r != nil {
					failf(rt, rec, "C11/getsigners-panics", msgSummary(m), "GetSigners of %s panicked with a valid creator: %v", u, r)
				}
			}()
			signers = m.GetSigners()
		}()
		if len(signers) != 1 || signers[0].String() != creator.String() {
			failf(rt, rec, "C11/signers", msgSummary(m), "%s: GetSigners() = %v, Creator = %s", u, signers, creator.String())
		}
		if c.App.MsgServiceRouter().Handler(m) == nil {
			failf(rt, rec, "C11/unroutable", msgSummary(m), "%s has no handler", u)
		}
		// a creator that is well-formed bech32 with the chain's prefix but no account (payload of another length than
		// 20 or 32 bytes): wherever stateless validation lets it through, the message must still demand one signature
		// (or be refused by panicking in GetSigners, which the ante handler turns into a failed transaction); a message
		// that demands no signature at all can ride along in anybody's transaction
		if rapid.IntRange(0, 2).Draw(rt, "oddCreator") == 0 {
			payload := make([]byte, rapid.SampledFrom([]int{1, 19, 21, 31, 33, 64, 300}).Draw(rt, "creatorPayloadLength"))
			for i := range payload {
				payload[i] = byte(i*7 + 1)
			}
			odd, err := bech32.ConvertAndEncode("jkl", payload)
			must(err)
			m2 := newMsgOf(c, u)
			fillMsg(rt, m2, env, nil)
			reflect.ValueOf(m2).Elem().FieldByName("Creator").SetString(odd)
			if m2.ValidateBasic() == nil {
				rec.Count("odd-length-creator-passes-stateless-validation")
				n := -1
				func() {
					defer func() { _ = recover() }()
					n = len(m2.GetSigners())
				}()
				if n != -1 && n != 1 {
					failf(rt, rec, "C11/signers/creator-that-is-no-account", msgSummary(m2), "%s with a %d-byte creator passes ValidateBasic and GetSigners() returns %d signers: the message needs no signature of its own", u, len(payload), n)
				}
			}
		}
		// encode / decode round trip through the app's TxConfig
		b := txCfg.NewTxBuilder()
		if err := b.SetMsgs(m); err != nil {
			failf(rt, rec, "C11/tx-encode", msgSummary(m), "SetMsgs: %v", err)
		}
		bz, err := txCfg.TxEncoder()(b.GetTx())
		if err != nil {
			failf(rt, rec, "C11/tx-encode", msgSummary(m), "encode: %v", err)
		}
		dec, err := txCfg.TxDecoder()(bz)
		if err != nil || len(dec.GetMsgs()) != 1 {
			failf(rt, rec, "C11/tx-decode", msgSummary(m), "decode: %v", err)
		}
		b1, e1 := proto.Marshal(dec.GetMsgs()[0])
		b2, e2 := proto.Marshal(m)
		if e1 != nil || e2 != nil || !bytes.Equal(b1, b2) {
			failf(rt, rec, "C11/tx-roundtrip", msgSummary(m), "message changed in a TxConfig round trip")
		}
		if s2 := dec.GetMsgs()[0].GetSigners(); len(s2) != 1 || !s2[0].Equals(signers[0]) {
			failf(rt, rec, "C11/signers-after-decode", msgSummary(m), "signers differ after decoding")
		}
		rec.Count("type:" + u[strings.LastIndex(u, ".")+1:])
		rec.Case(distinct && nStr >= 2, ev.Hash("a", msgSummary(m)), func() interface{} { return msgSummary(m) })
	})

	// ---------- (b) ----------
	passedStateless := map[string]bool{}
	search(t, rec, "ante", budget(300, 48000), 0, func(rt *rapid.T) {
		ac := chain.New(chain.GenesisOpts{NumAccounts: 4, Balance: sdk.NewCoins(sdk.NewInt64Coin("ujkl", 1_000_000_000_000))})
		defer ac.Close()
		if _, bp := ac.Begin(6 * time.Second); bp != nil {
			rt.Fatalf("begin: %v", bp)
		}
		A, B := chain.Acc(0), chain.Acc(1)
		seq := func(a chain.Account) uint64 {
			return ac.App.AccountKeeper.GetAccount(ac.DeliverCtx(), a.Addr).GetSequence()
		}
		u := urls[rapid.IntRange(0, len(urls)-1).Draw(rt, "type")]
		m := newMsgOf(ac, u)
		env := &fillEnv{Accounts: []string{A.Bech, B.Bech, chain.Acc(2).Bech}, Names: []string{"abc.jkl", "name.ibc"}, Strings: []string{hexsha("x"), "x"}, Merkles: [][]byte{{1, 2, 3}}, Starts: []int64{1}}
		fillMsg(rt, m, env, nil)
		reflect.ValueOf(m).Elem().FieldByName("Creator").SetString(A.Bech)
		stateless := m.ValidateBasic() == nil
		sA, sB := seq(A), seq(B)
		state0 := c11Owned(&storWorld{c: ac, f: &chain.Fork{C: ac, Ctx: ac.DeliverCtx()}})
		// signed only by B
		accB := ac.App.AccountKeeper.GetAccount(ac.DeliverCtx(), B.Addr)
		txb, err := chain.SignTxWith(B, accB.GetAccountNumber(), accB.GetSequence(), 5_000_000, m)
		must(err)
		r := ac.Deliver(txb)
		state1 := c11Owned(&storWorld{c: ac, f: &chain.Fork{C: ac, Ctx: ac.DeliverCtx()}})
		if r.Code == 0 || seq(A) != sA || seq(B) != sB || !reflect.DeepEqual(state0, state1) {
			failf(rt, rec, "C11/foreign-signature-accepted", msgSummary(m), "%s naming creator A but signed only by B: code %d, seq(A) %d->%d, seq(B) %d->%d", u, r.Code, sA, seq(A), sB, seq(B))
		}
		// signed by A: the ante handler must pass (sequence bumps) whenever the message is statelessly valid
		txa, err := ac.SignTx(A, 5_000_000, m)
		must(err)
		ra := ac.Deliver(txa)
		if stateless && seq(A) != sA+1 {
			failf(rt, rec, "C11/creator-signature-rejected", msgSummary(m), "%s signed by its creator did not pass the ante handler: code %d log %s", u, ra.Code, trunc(ra.Log, 200))
		}
		if stateless {
			passedStateless[u] = true
			rec.Count("ante-passed")
		} else {
			rec.Count("stateless-invalid")
		}
		rec.Case(stateless, ev.Hash("b", msgSummary(m)), func() interface{} { return "ante: " + msgSummary(m) })
	})
	rec.Note("(b) message types with at least one statelessly valid instance signed by the creator in this shard: %d of %d", len(passedStateless), len(urls))

	// ---------- (c) ----------
	search(t, rec, "foreign", budget(400, 240000), 40, func(rt *rapid.T) {
		w := newStorWorld(c, 5)
		w.setParams(func(p *storagetypes.Params) { p.CollateralPrice = 1000 })
		accs := make([]chain.Account, 5)
		for i := range accs {
			accs[i] = chain.Acc(i)
		}
		aimed := false
		// owners set up resources
		for i, a := range accs[:3] {
			w.initProvider(a, fmt.Sprintf("https://o%d.dom%d.com", i, i))
			w.f.Exec(&storagetypes.MsgAddClaimer{Creator: a.Bech, ClaimAddress: accs[4].Bech})
			w.f.Exec(&oracletypes.MsgCreateFeed{Creator: a.Bech, Name: fmt.Sprintf("feed%d", i)})
			w.f.Exec(&oracletypes.MsgUpdateFeed{Creator: a.Bech, Name: fmt.Sprintf("feed%d", i), Data: `{"price":"1"}`})
			w.f.Exec(newMsgRegisterName(a.Bech, fmt.Sprintf("owner%d.jkl", i), 1, "{}", true))
			w.f.Exec(newMsgRegisterName(a.Bech, fmt.Sprintf("second%d.jkl", i), 1, "{}", false)) // a second name the primary pointer does not point at
			if rapid.Bool().Draw(rt, "sameLabelUnderTheOtherTLD") {                              // ... and the same label under the other TLD, for longer, as the primary name
				w.f.Exec(newMsgRegisterName(a.Bech, fmt.Sprintf("owner%d.ibc", i), 3, "{}", false))
				w.f.Exec(&rnstypes.MsgMakePrimary{Creator: a.Bech, Name: fmt.Sprintf("owner%d.ibc", i)})
			}
			w.f.Exec(&notiftypes.MsgCreateNotification{Creator: accs[(i+1)%3].Bech, To: a.Bech, Contents: "{}"})
			w.f.Exec(&notiftypes.MsgBlockSenders{Creator: a.Bech, ToBlock: []string{accs[4].Bech}})
			w.buyStorage(a, a.Bech, 30, 1_000_000_000, "")
			w.postFile(a, append([]byte{byte(i + 1)}, c02Content(50)...), 2, 0)
		}
		// two owners store the same content, posted in the same block, and the same provider proves both copies
		{
			twin := append([]byte{77}, c02Content(40)...)
			f0, r0 := w.postFile(accs[0], twin, 2, 0)
			f1, r1 := w.postFile(accs[1], twin, 2, 0)
			if r0.OK() && r1.OK() {
				w.honestProve(accs[2], f0)
				w.honestProve(accs[2], f1)
			}
		}
		// a sparse, generated who-wrote-to-whom pattern (inboxes are neighbours in one key space)
		for i, from := range accs {
			for j, to := range accs {
				if i != j && rapid.IntRange(0, 9).Draw(rt, "wrote") < 4 {
					w.f.Exec(&notiftypes.MsgCreateNotification{Creator: from.Bech, To: to.Bech, Contents: `{"hi":1}`})
				}
			}
		}
		env := func() *fillEnv {
			e := &fillEnv{Height: w.f.Height(), Names: []string{"owner0.jkl", "owner1.jkl", "owner2.jkl", "owner0.ibc", "owner1.ibc", "second0.jkl", "second1.jkl", "second2.jkl", "Owner0.jkl", "owner1xjkl", "feed0", "feed1", "feed2", "Feed0", "FEED1", "feed0 ", " feed1", "fe ed2"}}
			for _, a := range accs {
				e.Accounts = append(e.Accounts, a.Bech)
			}
			for _, f := range w.c.App.StorageKeeper.GetAllFileByMerkle(w.f.Ctx) {
				e.Merkles = append(e.Merkles, f.Merkle)
				e.Starts = append(e.Starts, f.Start)
			}
			for _, n := range w.c.App.NotificationsKeeper.GetAllNotifications(w.f.Ctx) {
				e.Starts = append(e.Starts, n.Time)
			}
			e.Strings = []string{"feed0", "feed1", "feed2", "owner0.jkl", "owner1.jkl"}
			return e
		}
		ownerOnly := map[string]bool{}
		for _, u := range urls {
			for _, k := range []string{"SetProvider", "Claimer", "ShutdownProvider", "InitProvider", "UpdateFeed", "DeleteNotification", "BlockSenders", "MakePrimary", "storage.MsgDeleteFile"} {
				if strings.Contains(u, k) {
					ownerOnly[u] = true
				}
			}
		}
		var oo []string
		for u := range ownerOnly {
			oo = append(oo, u)
		}
		sort.Strings(oo)
		outOfScope := 0
		defer func() {
			if outOfScope > 0 {
				rec.Count("histories-where-a-message-type-the-property-does-not-name-touched-a-foreign-resource")
			}
		}()
		steps := rapid.IntRange(5, 40).Draw(rt, "steps")
		for i := 0; i < steps; i++ {
			u := urls[rapid.IntRange(0, len(urls)-1).Draw(rt, "type")]
			if rapid.IntRange(0, 9).Draw(rt, "ownerOnlyBias") < 6 {
				u = oo[rapid.IntRange(0, len(oo)-1).Draw(rt, "ownerOnlyType")]
			}
			m := newMsgOf(c, u)
			fillMsg(rt, m, env(), nil)
			if rapid.IntRange(0, 9).Draw(rt, "inboxDelete") == 0 {
				// an inbox deletion with boundary time stamps (0, -1, an existing one) about an existing sender
				del := &notiftypes.MsgDeleteNotification{Creator: accs[rapid.IntRange(0, 4).Draw(rt, "inboxOwner")].Bech, From: accs[rapid.IntRange(0, 4).Draw(rt, "sender")].Bech,
					Time: rapid.SampledFrom([]int64{0, 0, -1, 1}).Draw(rt, "timeStamp")}
				if ns := w.c.App.NotificationsKeeper.GetAllNotifications(w.f.Ctx); len(ns) > 0 && rapid.Bool().Draw(rt, "existingTime") {
					n := ns[rapid.IntRange(0, len(ns)-1).Draw(rt, "whichTime")]
					del.Time = n.Time
					if rapid.IntRange(0, 2).Draw(rt, "pathLikeFrom") == 0 { // the sender field is a free string
						del.From = rapid.SampledFrom([]string{"../" + n.To + "/" + n.From, "../../" + n.To + "/" + n.From, n.From + "/../../" + n.To + "/" + n.From}).Draw(rt, "from")
					}
				}
				m = del
			}
			if feeds := w.c.App.OracleKeeper.GetAllFeeds(w.f.Ctx); len(feeds) > 0 && rapid.IntRange(0, 9).Draw(rt, "feedReplay") == 0 {
				// somebody replays the owner's last update of a feed word for word in a later block (or the owner repeats it)
				fd := feeds[rapid.IntRange(0, len(feeds)-1).Draw(rt, "whichFeed")]
				w.f.SetBlock(w.f.Height()+1, w.f.Time().Add(6*time.Second))
				m = &oracletypes.MsgUpdateFeed{Creator: accs[rapid.IntRange(0, 4).Draw(rt, "replayer")].Bech, Name: fd.Name, Data: fd.Data}
				u = sdk.MsgTypeURL(m)
			}
			signer := reflect.ValueOf(m).Elem().FieldByName("Creator").String()
			before := c11Owned(w)
			res := w.f.Exec(m)
			w.logf("%s -> %s", msgSummary(m), trunc(res.String(), 80))
			if ownerOnly[u] && (signer == accs[3].Bech || signer == accs[4].Bech || len(before[signer]) == 0 || true) {
				// aimed at an existing resource of somebody else?
				for o, rs := range before {
					if o != signer && len(rs) > 0 {
						aimed = true
					}
				}
			}
			if sig, msg := c11CompareScoped(before, c11Owned(w), signer, msgSummary(m), sdk.MsgTypeURL(m), &outOfScope); sig != "" {
				failf(rt, rec, sig, w.trace, "%s", msg)
			}
			switch rapid.IntRange(0, 19).Draw(rt, "tick") {
			case 0, 1:
				w.f.SetBlock(w.f.Height()+1, w.f.Time().Add(6*time.Second))
			case 2: // long after every name registered so far has expired
				w.f.SetBlock(w.f.Height()+6_000_000, time.Unix(w.f.Time().Unix()+36_000_000, 0).UTC())
				w.logf("height jumps by 6,000,000 blocks")
				if rapid.Bool().Draw(rt, "takeOverALapsedName") { // somebody else registers a name that has just lapsed
					i := rapid.IntRange(0, 2).Draw(rt, "whoseName")
					taker := accs[(i+1+rapid.IntRange(0, 3).Draw(rt, "taker"))%5]
					m := newMsgRegisterName(taker.Bech, fmt.Sprintf("owner%d.jkl", i), 1, "{}", rapid.Bool().Draw(rt, "asPrimary"))
					before := c11Owned(w)
					res := w.f.Exec(m)
					w.logf("%s -> %s", msgSummary(m), trunc(res.String(), 80))
					if sig, msg := c11CompareScoped(before, c11Owned(w), taker.Bech, msgSummary(m), sdk.MsgTypeURL(m), &outOfScope); sig != "" {
						failf(rt, rec, sig, w.trace, "%s", msg)
					}
				}
			}
		}
		// wasm binding: a contract can post only in its own name
		contract := accs[rapid.IntRange(0, 4).Draw(rt, "contract")]
		creator := accs[rapid.IntRange(0, 4).Draw(rt, "bindingCreator")]
		f := buildFile(append([]byte{99}, c02Content(20)...), 1024)
		pm := &storagetypes.MsgPostFile{Creator: creator.Bech, Merkle: f.Merkle, FileSize: 21, MaxProofs: 1, Note: "{}"}
		before := c11Owned(w)
		cctx, write := w.f.Ctx.CacheContext()
		payload := map[string]interface{}{"post_file": pm}
		if len(w.files) > 0 && rapid.Bool().Draw(rt, "severalVariantsInOneMessage") {
			// a contract's custom message is a JSON object with one member per operation; nothing stops a contract from sending
			// several members at once, the others naming somebody else: whatever the binding makes of them, it may act for
			// the contract only
			vf := w.files[rapid.IntRange(0, len(w.files)-1).Draw(rt, "victimFile")]
			payload["delete_file"] = &storagetypes.MsgDeleteFile{Creator: vf.Owner, Merkle: vf.Merkle, Start: vf.Start}
			payload["shutdown_provider"] = &storagetypes.MsgShutdownProvider{Creator: vf.Owner}
			payload["buy_storage"] = &storagetypes.MsgBuyStorage{Creator: vf.Owner, ForAddress: contract.Bech, DurationDays: 30, Bytes: 1_000_000_000, PaymentDenom: "ujkl"}
			if rapid.Bool().Draw(rt, "withoutPostFile") {
				delete(payload, "post_file")
			}
		}
		custom, jerr := json.Marshal(payload)
		must(jerr)
		_, _, err := wasmMessenger(w.c.App).DispatchMsg(cctx, contract.Addr, "", wasmvmtypes.CosmosMsg{Custom: custom})
		if err == nil {
			write()
		}
		w.logf("wasm custom message post_file contract=%s creator=%s -> %v", short(contract.Bech), short(creator.Bech), err)
		if err == nil && creator.Bech != contract.Bech {
			failf(rt, rec, "C11/wasm-post-in-foreign-name", w.trace, "contract %s posted a file in the name of %s", short(contract.Bech), short(creator.Bech))
		}
		if sig, msg := c11Compare(before, c11Owned(w), contract.Bech, "wasm PerformPostFile"); sig != "" {
			failf(rt, rec, sig, w.trace, "%s", msg)
		}
		rec.Case(aimed, ev.Hash(append([]string{"c"}, w.trace...)...), func() interface{} { return w.trace })
	})
}

// wasmMessenger builds the messenger the application installs for contracts' custom messages, the way app.go does
// (wasmbinding.CustomMessageDecorator over the application's keepers). The decorator is called reflectively, its
// arguments picked from the application's fields by type, so that the harness keeps compiling when the decorator
// gains or reorders parameters; what the harness relies on is wasmd's Messenger interface.
func wasmMessenger(app interface{}) wasmkeeper.Messenger {
	dec := reflect.ValueOf(wasmbinding.CustomMessageDecorator)
	t := dec.Type()
	appV := reflect.ValueOf(app).Elem()
	args := make([]reflect.Value, t.NumIn())
	for i := range args {
		pt := t.In(i)
		for j := 0; j < appV.NumField(); j++ {
			f := appV.Field(j)
			if !appV.Type().Field(j).IsExported() {
				continue
			}
			if f.Type() == pt {
				args[i] = f
				break
			}
			if f.CanAddr() && f.Addr().Type() == pt {
				args[i] = f.Addr()
				break
			}
		}
		if !args[i].IsValid() {
			panic(fmt.Sprintf("harness: no application field of type %s for the wasm message decorator", pt))
		}
	}
	wrap := dec.Call(args)[0].Interface().(func(wasmkeeper.Messenger) wasmkeeper.Messenger)
	return wrap(refusingMessenger{})
}

// refusingMessenger stands in for the messenger chain behind the custom one.
type refusingMessenger struct{}

func (refusingMessenger) DispatchMsg(sdk.Context, sdk.AccAddress, string, wasmvmtypes.CosmosMsg) ([]sdk.Event, [][]byte, error) {
	return nil, nil, fmt.Errorf("not a custom message of this chain")
}
