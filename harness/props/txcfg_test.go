package props

import (
	"github.com/cosmos/cosmos-sdk/client"

	"github.com/jackalLabs/canine-chain/v4/app"
)

func chainTxConfig() client.TxConfig { return app.MakeEncodingConfig().TxConfig }
