package props

// C20 — hashed file-tree paths keep the parent/child relation; a trailing slash is
// neutral; distinct segment sequences give distinct addresses.
//
// Oracle: an independent fold written with crypto/sha256:
//     t0 = "" ; t(i+1) = hex(sha256(t(i) || hex(sha256(seg(i)))))
// compared with types.MerklePath / types.AddToMerkle and with the Path returned by
// the real filetree PostFile handler.

import (
	"crypto/sha256"
	"encoding/hex"
	"encoding/json"
	"fmt"
	"strings"
	"testing"
	"time"

	sdk "github.com/cosmos/cosmos-sdk/types"
	"pgregory.net/rapid"

	ftkeeper "github.com/jackalLabs/canine-chain/v4/x/filetree/keeper"
	fttypes "github.com/jackalLabs/canine-chain/v4/x/filetree/types"

	"verifharness/chain"
	"verifharness/ev"
)

func hexsha(s string) string {
	h := sha256.Sum256([]byte(s))
	return hex.EncodeToString(h[:])
}

func refPath(segs []string) string {
	t := ""
	for _, s := range segs {
		t = hexsha(t + hexsha(s))
	}
	return t
}

// genSegment draws one path segment without '/'.
func genSegment(t *rapid.T, label string, earlier []string) string {
	switch rapid.IntRange(0, 9).Draw(t, label+"-kind") {
	case 0:
		return ""
	case 1, 2, 3:
		return rapid.StringMatching(`[a-c]{1,3}`).Draw(t, label)
	case 4:
		s := rapid.String().Draw(t, label)
		return strings.ReplaceAll(s, "/", "∕")
	case 5: // looks like a digest of an earlier segment or of an earlier prefix
		if len(earlier) > 0 {
			i := rapid.IntRange(0, len(earlier)-1).Draw(t, label+"-of")
			if rapid.Bool().Draw(t, label+"-prefix") {
				return refPath(earlier[:i+1])
			}
			return hexsha(earlier[i])
		}
		return hexsha("")
	case 6:
		n := rapid.IntRange(100, 3000).Draw(t, label+"-len")
		return strings.Repeat(rapid.StringMatching(`[a-z0-9 .]`).Draw(t, label), n)
	case 7:
		if rapid.Bool().Draw(t, label+"-rawBytes") { // arbitrary bytes, not necessarily valid UTF-8 (Latin-1 names, truncated sequences)
			b := rapid.SliceOfN(rapid.Byte(), 1, 6).Draw(t, label+"-bytes")
			for i := range b {
				if b[i] == '/' {
					b[i] = 0xff
				}
			}
			return string(b)
		}
		return rapid.SampledFrom([]string{" ", ".", "..", "\\", "s", "home", "\x00", "%2F", "a b", "é", "日本", "🙂", "r\xe9sum\xe9.pdf", "\xff", "\xfe", "\xc0", "\uFFFD", "\xe6\x97"}).Draw(t, label)
	case 8: // concatenation of two earlier segments (["ab"] vs ["a","b"])
		if len(earlier) >= 2 {
			return earlier[len(earlier)-2] + earlier[len(earlier)-1]
		}
		return "ab"
	default:
		return rapid.StringOf(rapid.RuneFrom(nil, rapidNoSlash...)).Draw(t, label)
	}
}

func genSegs(t *rapid.T, label string, min, max int) []string {
	n := rapid.IntRange(min, max).Draw(t, label+"-n")
	segs := make([]string, 0, n)
	for i := 0; i < n; i++ {
		segs = append(segs, genSegment(t, fmt.Sprintf("%s%d", label, i), segs))
	}
	return segs
}

func TestC20(t *testing.T) {
	rec := ev.For("C20")
	rec.Describe("four generated searches against an independent reference fold t' = sha256hex(t + sha256hex(segment)) starting from the empty string: (fold) lists of 1-8 path segments (empty, 1-3 letters from a tiny alphabet, arbitrary unicode, raw non-UTF-8 bytes, '.', '..', blanks, percent and backslash sequences, segments that look like the digest of an earlier segment or prefix, concatenations of two earlier segments, names of 100-3000 characters; one list in a hundred nested 15..257 deep) rendered with and without a trailing slash: MerklePath(path) == reference fold, MerklePath(path + '/') == MerklePath(path) wherever the last segment is not empty, AddToMerkle(MerklePath(parent), sha256hex(child)) == MerklePath(parent/child); (splitter) paths of 2-7 non-empty names in which names repeat along the path: the repository's path splitter MerkleHelper must return (address of the parent path, sha256hex(last name)), so that a post carrying them lands at the plain path's address; (distinct) pairs of segment lists related by splitting a segment, joining neighbours, appending an empty segment, replacing a prefix by its own digest, swapping segments, or drawn independently: different lists never share an address; (post) on a fork of a real app the owner provisions its tree and posts 1-5 nested entries, each parent rendered with or without its trailing slash, verbatim and modified re-posts included: the address PostFile returns equals the reference fold and MerklePath of the plain path, and the entry is stored there under the folder's account. Non-trivial = (fold) a list of >= 2 segments, (splitter) a name repeated along the path, (distinct) the two lists differ, (post) a path of >= 3 segments; distinct = distinct segment lists / pairs.",
		"paths are split at '/' only; a segment may be empty (\"a//b\" has the segments a, '', b) - this is what MerklePath does and what the reference fold follows",
		"the splitter clause leaves out paths with empty names: there MerkleHelper trims the parent once more than MerklePath does, which concerns clients only")

	// ---- plain regression replays (no library): fixed hand-picked lists ----
	fixed := [][]string{{"s"}, {"s", "home"}, {""}, {"", ""}, {"a", ""}, {"ab"}, {"a", "b"}, {"s", "home", "movies", "x.mp4"},
		{hexsha("a")}, {"a", hexsha("b")}}
	for _, segs := range fixed {
		if msg := c20Clauses(segs); msg != "" {
			rec.Regress("C20/fixed-lists", true, msg)
		}
	}

	// ---- clauses 1-3: MerklePath / AddToMerkle against the reference fold ----
	search(t, rec, "fold", budget(40000, 3000000), 0, func(rt *rapid.T) {
		segs := genSegs(rt, "seg", 1, 8)
		if rapid.IntRange(0, 99).Draw(rt, "deepPath") == 0 { // deeply nested folders: lengths around powers of two and far beyond
			deep := rapid.SampledFrom([]int{15, 16, 17, 31, 32, 33, 63, 64, 65, 66, 100, 127, 128, 129, 255, 256, 257}).Draw(rt, "depth")
			for len(segs) < deep {
				segs = append(segs, fmt.Sprintf("d%d", len(segs)%7))
			}
		}
		if msg := c20Clauses(segs); msg != "" {
			failf(rt, rec, "C20/fold", segs, "%s", msg)
		}
		nt := len(segs) >= 2
		for _, s := range segs {
			if s == "" || !isASCII(s) {
				nt = true
			}
		}
		if len(segs) > 8 {
			rec.Count("len>8")
		} else {
			rec.Count(fmt.Sprintf("len=%d", len(segs)))
		}
		rec.Case(nt, ev.Hash(segs...), func() interface{} { return map[string]interface{}{"segments": trimAll(segs), "address": refPath(segs)} })
	})

	// ---- clause 4: distinct lists give distinct addresses ----
	// ---- the repository's path splitter (the one its tests, its simulation and - in the same form - its command line use
	// to turn a plain path into the two hashes a post carries): for paths of non-empty names, some of them repeated along
	// the path, posting with its output must land at the address computed from the plain path.  Paths with empty names are
	// left out: there the splitter trims the parent once more than MerklePath does, which only concerns clients.
	search(t, rec, "splitter", budget(20000, 1000000), 0, func(rt *rapid.T) {
		n := rapid.IntRange(2, 7).Draw(rt, "n")
		var segs []string
		for i := 0; i < n; i++ {
			if len(segs) > 0 && rapid.IntRange(0, 2).Draw(rt, "repeat") == 0 { // a folder or file named like one of its ancestors
				segs = append(segs, segs[rapid.IntRange(0, len(segs)-1).Draw(rt, "ancestor")])
				continue
			}
			sg := genSegment(rt, fmt.Sprintf("seg%d", i), segs)
			if sg == "" {
				sg = "x"
			}
			segs = append(segs, sg)
		}
		path := strings.Join(segs, "/")
		if rapid.Bool().Draw(rt, "trailingSlash") {
			path += "/"
		}
		parent, child := fttypes.MerkleHelper(path)
		if want := refPath(segs[:n-1]); parent != want {
			failf(rt, rec, "C20/splitter-parent", segs, "MerkleHelper(%q) gives parent %s, the address of %q is %s", path, parent, strings.Join(segs[:n-1], "/"), want)
		}
		if child != hexsha(segs[n-1]) {
			failf(rt, rec, "C20/splitter-child", segs, "MerkleHelper(%q) gives child hash %s, sha256(%q) is %s", path, child, segs[n-1], hexsha(segs[n-1]))
		}
		if got := fttypes.AddToMerkle(parent, child); got != refPath(segs) {
			failf(rt, rec, "C20/splitter-address", segs, "posting %q with the splitter's hashes lands at %s, the plain path's address is %s", path, got, refPath(segs))
		}
		repeated := false
		for i := range segs {
			for j := 0; j < i; j++ {
				repeated = repeated || segs[i] == segs[j]
			}
		}
		rec.Case(repeated, ev.Hash(append([]string{"splitter"}, segs...)...), func() interface{} { return segs })
	})

	search(t, rec, "distinct", budget(20000, 1000000), 0, func(rt *rapid.T) {
		a := genSegs(rt, "a", 1, 5)
		var b []string
		switch rapid.IntRange(0, 5).Draw(rt, "mut") {
		case 0: // independent
			b = genSegs(rt, "b", 1, 5)
		case 1: // split one segment in two
			i := rapid.IntRange(0, len(a)-1).Draw(rt, "i")
			r := []rune(a[i])
			k := rapid.IntRange(0, len(r)).Draw(rt, "k")
			b = append(append(append([]string{}, a[:i]...), string(r[:k]), string(r[k:])), a[i+1:]...)
		case 2: // join two neighbours
			if len(a) >= 2 {
				i := rapid.IntRange(0, len(a)-2).Draw(rt, "i")
				b = append(append(append([]string{}, a[:i]...), a[i]+a[i+1]), a[i+2:]...)
			} else {
				b = append(append([]string{}, a...), "")
			}
		case 3: // append an empty segment
			b = append(append([]string{}, a...), "")
		case 4: // replace a prefix by its own digest ("pre-hashed" prefix as one segment)
			i := rapid.IntRange(1, len(a)).Draw(rt, "i")
			b = append([]string{refPath(a[:i])}, a[i:]...)
		default: // swap two segments
			b = append([]string{}, a...)
			if len(b) >= 2 {
				b[0], b[len(b)-1] = b[len(b)-1], b[0]
			}
		}
		same := len(a) == len(b)
		if same {
			for i := range a {
				if a[i] != b[i] {
					same = false
				}
			}
		}
		pa, pb := fttypes.MerklePath(render(a, true)), fttypes.MerklePath(render(b, true))
		if !same && pa == pb {
			failf(rt, rec, "C20/distinct", [][]string{a, b}, "distinct segment lists %q and %q share address %s", a, b, pa)
		}
		if same && pa != pb {
			failf(rt, rec, "C20/distinct", [][]string{a, b}, "equal lists give different addresses")
		}
		rec.Count("pairs")
		rec.Case(!same, ev.Hash(append(append([]string{}, a...), append([]string{"|"}, b...)...)...), func() interface{} {
			return map[string]interface{}{"a": trimAll(a), "b": trimAll(b), "addr_a": pa, "addr_b": pb}
		})
	})

	// ---- clause 5: the address returned by posting equals the one computed from the plain path ----
	c := chain.New(chain.GenesisOpts{NumAccounts: 2, Balance: sdk.NewCoins(sdk.NewInt64Coin(chain.Denom, 1_000_000))})
	defer c.Close()
	search(t, rec, "post", budget(3000, 100000), 0, func(rt *rapid.T) {
		f := c.Fork(1, chain.GenesisTime.Add(6*time.Second))
		owner := chain.Acc(0).Bech
		acct := hexsha(owner)
		tn := "tn-root"
		editors := accessJSON("e", tn, owner)
		viewers := accessJSON("v", tn, owner)
		if r := f.Exec(newMsgProvisionFileTree(owner, editors, viewers, tn)); !r.OK() {
			rt.Fatalf("provision failed: %v", r)
		}
		segs := append([]string{"s"}, genSegs(rt, "seg", 1, 5)...)
		for i := 1; i < len(segs); i++ {
			parentPlain := render(segs[:i], rapid.Bool().Draw(rt, fmt.Sprintf("slash%d", i)) || segs[i-1] == "")
			hp := fttypes.MerklePath(parentPlain)
			hc := hexsha(segs[i])
			tn := fmt.Sprintf("tn-%d", i)
			msg := fttypes.NewMsgPostFile(owner, acct, hp, hc, "contents", accessJSON("v", tn, owner), accessJSON("e", tn, owner), tn)
			r := f.Exec(msg)
			if !r.OK() {
				failf(rt, rec, "C20/post-rejected", segs[:i+1], "owner's post of %q under its own folder %q failed: %v", segs[i], parentPlain, r)
			}
			var resp fttypes.MsgPostFileResponse
			must(r.Decode(&resp))
			want := refPath(segs[:i+1])
			if resp.Path != want {
				failf(rt, rec, "C20/post-path", segs[:i+1], "PostFile returned %s, reference address of the plain path is %s", resp.Path, want)
			}
			childPlain := render(segs[:i+1], true)
			if got := fttypes.MerklePath(childPlain); got != resp.Path {
				failf(rt, rec, "C20/post-path", segs[:i+1], "MerklePath(%q)=%s differs from returned path %s", childPlain, got, resp.Path)
			}
			// the entry must be retrievable at that address under the folder's account
			if _, found := c.App.FileTreeKeeper.GetFiles(f.Ctx, resp.Path, ftkeeper.MakeOwnerAddress(resp.Path, acct)); !found {
				failf(rt, rec, "C20/post-stored", segs[:i+1], "posted entry not found at returned path")
			}
			// posting the same path again (a verbatim retry, or new contents) returns the same address again
			if again := rapid.IntRange(0, 3).Draw(rt, fmt.Sprintf("repost%d", i)); again > 0 {
				m2 := *msg
				if again == 2 {
					m2.Contents = "other contents"
				}
				if again == 3 { // the same parent spelled with / without its trailing slash gives the same message
					m2.HashParent = fttypes.MerklePath(render(segs[:i], true))
				}
				r2 := f.Exec(&m2)
				if !r2.OK() {
					failf(rt, rec, "C20/post-rejected", segs[:i+1], "the owner's second post of %q failed: %v", segs[i], r2)
				}
				var resp2 fttypes.MsgPostFileResponse
				must(r2.Decode(&resp2))
				if resp2.Path != want {
					failf(rt, rec, "C20/post-path", segs[:i+1], "a second PostFile of the same path returned %q, the address of the plain path is %s", resp2.Path, want)
				}
				rec.Count("re-posts")
			}
		}
		rec.Count("posts")
		rec.Case(len(segs) >= 3, ev.Hash(append([]string{"post"}, segs...)...), func() interface{} {
			return map[string]interface{}{"posted_path_segments": trimAll(segs), "address": refPath(segs)}
		})
	})
}

func accessJSON(kind, tracking, user string) string {
	m := map[string]string{hexsha(kind + tracking + user): "key"}
	b, _ := json.Marshal(m)
	return string(b)
}

// render joins segments with '/', optionally with one trailing slash.
func render(segs []string, trailing bool) string {
	p := strings.Join(segs, "/")
	if trailing {
		p += "/"
	}
	return p
}

// c20Clauses checks clauses 1-3 for one list; returns "" or a description.
func c20Clauses(segs []string) string {
	want := refPath(segs)
	if got := fttypes.MerklePath(render(segs, true)); got != want {
		return fmt.Sprintf("MerklePath(%q)=%s, reference fold of %q gives %s", render(segs, true), got, segs, want)
	}
	if segs[len(segs)-1] != "" {
		if got := fttypes.MerklePath(render(segs, false)); got != want {
			return fmt.Sprintf("trailing slash not neutral: MerklePath(%q)=%s but with slash %s", render(segs, false), got, want)
		}
	}
	for i := 1; i < len(segs); i++ {
		parent := fttypes.MerklePath(render(segs[:i], true))
		if got, w := fttypes.AddToMerkle(parent, hexsha(segs[i])), refPath(segs[:i+1]); got != w {
			return fmt.Sprintf("AddToMerkle(addr(%q), H(%q))=%s, address of child path is %s", segs[:i], segs[i], got, w)
		}
		// and with the library's own address of the child path
		if got, w := fttypes.AddToMerkle(parent, hexsha(segs[i])), fttypes.MerklePath(render(segs[:i+1], true)); got != w {
			return fmt.Sprintf("AddToMerkle(parent, child)=%s differs from MerklePath(parent/child)=%s for %q", got, w, segs[:i+1])
		}
	}
	return ""
}

func isASCII(s string) bool {
	for i := 0; i < len(s); i++ {
		if s[i] >= 0x80 {
			return false
		}
	}
	return true
}

func trimAll(segs []string) []string {
	out := make([]string, len(segs))
	for i, s := range segs {
		if len(s) > 80 {
			s = s[:80] + fmt.Sprintf("…(%d bytes)", len(s))
		}
		out[i] = s
	}
	return out
}

// all runes except '/'
var rapidNoSlash = rangeTables()
