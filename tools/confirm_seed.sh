#!/bin/bash
# confirm_seed.sh <ID-dir-name> <worktree> <patch> <demo-src> <demo-dest-rel> <pkg> <run-regex> [full]
# Confirms a seeded change: demo passes without it, fails with it, repo builds, (optionally) whole suite still passes.
set -u
name=$1; wt=$2; patch=$3; demo=$4; dest=$5; pkg=$6; run=$7; full=${8:-}
export GOFLAGS=-mod=mod GOPROXY=off GOSUMDB=off GOTOOLCHAIN=local
cd "$wt" || exit 2
git checkout -q -- . && git clean -qfd
cp "$demo" "$dest"
echo "== demo WITHOUT change (expect ok)"
go test -vet=off -count=1 "$pkg" -run "$run" 2>&1 | tail -5
echo "== apply patch"
git apply "$patch" || { echo "PATCH DOES NOT APPLY"; exit 2; }
go build ./... && echo "build ok"
echo "== demo WITH change (expect FAIL)"
go test -vet=off -count=1 "$pkg" -run "$run" 2>&1 | tail -8
if [ -n "$full" ]; then
  echo "== full suite with change (without demo)"
  rm -f "$dest"
  go test -vet=off -count=1 -timeout 25m ./... 2>&1 | grep -v "no test files" | grep -v "^ok" | tail -30
  echo "== (end of non-ok lines)"
fi
git checkout -q -- . && git clean -qfd
