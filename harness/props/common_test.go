package props

import (
	"encoding/json"
	"flag"
	"fmt"
	"os"
	"path/filepath"
	"strconv"
	"strings"
	"testing"

	"pgregory.net/rapid"

	"verifharness/chain"
	"verifharness/ev"
)

// Tier is "quick" or "thorough" (VERIF_TIER, default quick).
func Tier() string {
	if os.Getenv("VERIF_TIER") == "thorough" {
		return "thorough"
	}
	return "quick"
}

// scaled turns a per-tier total case budget into this shard's budget.
// VERIF_SHARDS is the number of processes sharing the budget.
func budget(quick, thorough int) int {
	n := quick
	if Tier() == "thorough" {
		n = thorough
	}
	if s := os.Getenv("VERIF_BUDGET_SCALE"); s != "" { // sensitivity runs may shrink/grow budgets
		if f, err := strconv.ParseFloat(s, 64); err == nil && f > 0 {
			n = int(float64(n) * f)
		}
	}
	shards := 1
	if s, err := strconv.Atoi(os.Getenv("VERIF_SHARDS")); err == nil && s > 0 {
		shards = s
	}
	n = (n + shards - 1) / shards
	if n < 1 {
		n = 1
	}
	return n
}

func shardIndex() int {
	s, _ := strconv.Atoi(os.Getenv("VERIF_SHARD"))
	return s
}

func rapidSeed() int64 {
	f := flag.Lookup("rapid.seed")
	if f == nil {
		return 0
	}
	v, _ := strconv.ParseInt(f.Value.String(), 10, 64)
	return v
}

// search runs one rapid property as a sub-test with a case budget and turns a failure
// (already shrunk by rapid) into a recorded violation with its replay material.
func search(t *testing.T, rec *ev.Rec, sub string, checks int, steps int, prop func(*rapid.T)) {
	t.Helper()
	t.Run(sub, func(t *testing.T) {
		must(flag.Set("rapid.checks", strconv.Itoa(checks)))
		if steps > 0 {
			must(flag.Set("rapid.steps", strconv.Itoa(steps)))
		}
		defer func() {
			if t.Failed() {
				ff := collectFailFile(t.Name())
				if !rec.Flush(sub, rapidSeed(), ff) {
					// failure without a recorded oracle message: a panic or a rapid health error
					rec.Fail(ev.Violation{Sig: rec.Property + "/" + sub + "/harness-failure",
						Message: "rapid reported a failure that no oracle recorded (panic in harness or generator health problem); see log"})
					rec.Flush(sub, rapidSeed(), ff)
				}
			} else {
				rec.ClearFail()
			}
			ev.WriteAll(false)
		}()
		rapid.Check(t, prop)
	})
}

// collectFailFile moves rapid's fail file (written below ./testdata/rapid) to the
// replay directory and returns its new path.
func collectFailFile(testName string) string {
	dir := os.Getenv("VERIF_REPLAY_DIR")
	if dir == "" {
		return ""
	}
	var newest string
	_ = filepath.Walk("testdata/rapid", func(p string, info os.FileInfo, err error) error {
		if err == nil && !info.IsDir() && strings.HasSuffix(p, ".fail") {
			newest = p
		}
		return nil
	})
	if newest == "" {
		return ""
	}
	_ = os.MkdirAll(dir, 0o755)
	dst := filepath.Join(dir, fmt.Sprintf("%s-seed%d-shard%d.fail",
		strings.ReplaceAll(testName, "/", "_"), rapidSeed(), shardIndex()))
	b, err := os.ReadFile(newest)
	if err != nil {
		return ""
	}
	if os.WriteFile(dst, b, 0o644) != nil {
		return ""
	}
	_ = os.Remove(newest)
	return dst
}

// failf records an oracle failure (signature + message + trace) and fails the case.
func failf(rt *rapid.T, rec *ev.Rec, sig string, trace interface{}, format string, a ...interface{}) {
	msg := fmt.Sprintf(format, a...)
	rec.Fail(ev.Violation{Sig: sig, Message: msg, Trace: trace})
	rt.Fatalf("%s: %s", sig, msg)
}

func must(err error) {
	if err != nil {
		panic(err)
	}
}

func js(v interface{}) string {
	b, _ := json.Marshal(v)
	return string(b)
}

func TestMain(m *testing.M) {
	chain.InitConfig()
	code := m.Run()
	ev.WriteAll(true)
	chain.CleanWorkDir()
	os.Exit(code)
}

// os_only_regress reports whether only the regression phase is wanted (replay of a
// recorded finding).
func os_only_regress() bool { return os.Getenv("VERIF_ONLY_REGRESS") == "1" }

func envInt(name string) int {
	v, _ := strconv.Atoi(os.Getenv(name))
	return v
}
