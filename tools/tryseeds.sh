#!/bin/bash
# tryseeds.sh <out-prefix> <ID>...   runs ./check <ID> quick against /tmp/wt/<out-prefix>_<ID>/patch.diff, one line per ID
pre=$1; shift
for id in "$@"; do
  out=$(/verif/tools/seedrun.sh /tmp/wt/${pre}_$id/patch.diff $id quick 2>&1)
  rc=$(echo "$out" | grep -o "check exit=[0-9]*" | cut -d= -f2)
  v=$(echo "$out" | grep "^  C[0-9][0-9]/" | head -1 | cut -c1-230)
  case "$rc" in 1) r=KILLED;; 0) r=MISSED;; *) r="rc=$rc $(echo "$out" | grep -i "does not apply\|INCONCLUSIVE" | head -1 | cut -c1-120)";; esac
  echo "$id $r $v"
done
