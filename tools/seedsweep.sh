#!/bin/bash
# seedsweep.sh [tier] [workers]: run the check of its property against every stored seeded change (seeded/<id>/patch.diff),
# each applied to a scratch worktree of /repo HEAD (never to /repo itself), and write one line per change to seeded/SWEEP.txt.
tier=${1:-quick}; nw=${2:-4}
export GOFLAGS=-mod=mod GOPROXY=off GOSUMDB=off GOTOOLCHAIN=local
VH="$(cd "$(dirname "$0")/.." && pwd)"   # the checkout these tools belong to: /verif, or a snapshot of it made by vp run
mkdir -p /tmp/mut
rm -f /tmp/mut/sweep_*.out; ls -d $VH/seeded/*/ > /tmp/mut/sweep_list.txt
worker() {
  k=$1; wt=/tmp/mut/sw$k; i=0
  for d in $(cat /tmp/mut/sweep_list.txt); do
    i=$((i+1)); [ $((i % nw)) -eq $k ] || continue
    name=$(basename $d); [ -f $d/patch.diff ] || continue
    id=$(jq -r .property $d/meta.json)
    git -C $wt checkout -q -- . ; git -C $wt clean -qfd
    patch=$d/patch.diff; [ -f $d/patch_rebased.diff ] && patch=$d/patch_rebased.diff   # re-based onto the current tree after a repair touched the same lines
    if ! git -C $wt apply $patch 2>/dev/null; then
      echo "$name $id NOT-APPLICABLE (does not apply to the current tree: superseded by a repair)"; continue
    fi
    res=$(cd $VH && VERIF_REPO=$wt ./check $id $tier 2>&1)
    rc=$?
    sig=$(echo "$res" | grep -o "^  C[0-9][0-9]/[^:]*" | head -1 | tr -d ' ')
    case "$rc" in 1) r="KILLED $sig";; 0) r=SURVIVED;; *) r="rc=$rc $(echo "$res" | tail -1 | cut -c1-100)";; esac
    echo "$res" | grep -q "reason=build-failed" && r="NOT-APPLICABLE (applies textually but no longer compiles: superseded by a repair)"
    [ -n "$(jq -r '.out_of_scope // ""' $d/meta.json)" ] && r="$r [outside the property's quantifier: $(jq -r .out_of_scope $d/meta.json | cut -c1-90)]"
    [ -n "$(jq -r '.obsolete // ""' $d/meta.json)" ] && r="$r [marked obsolete: $(jq -r .obsolete $d/meta.json | cut -c1-90)]"
    echo "$name $id $r"
  done
  rm -f $VH/.work/bin/harness-_tmp_mut_sw$k.test $VH/.work/alt-_tmp_mut_sw$k.* $VH/.work/evidence-alt-*
}
# worktrees are created one after the other (concurrent "git worktree" calls race on /repo/.git/worktrees)
for k in $(seq 0 $((nw-1))); do
  git -C /repo worktree remove --force /tmp/mut/sw$k 2>/dev/null
  git -C /repo worktree add --detach -q /tmp/mut/sw$k HEAD || exit 2
done
for k in $(seq 0 $((nw-1))); do worker $k > /tmp/mut/sweep_$k.out 2>&1 & done
wait
for k in $(seq 0 $((nw-1))); do git -C /repo worktree remove --force /tmp/mut/sw$k; done
cat /tmp/mut/sweep_*.out | sort > $VH/seeded/SWEEP.txt
grep -c KILLED $VH/seeded/SWEEP.txt
