package props

// C19 — exporting and re-importing genesis preserves every custom module's state.

import (
	"bytes"
	"encoding/json"
	"fmt"
	"math"
	"reflect"
	"sort"
	"strings"
	"testing"
	"time"

	sdk "github.com/cosmos/cosmos-sdk/types"
	paramtypes "github.com/cosmos/cosmos-sdk/x/params/types"
	"pgregory.net/rapid"

	"github.com/jackalLabs/canine-chain/v4/x/filetree"
	fttypes "github.com/jackalLabs/canine-chain/v4/x/filetree/types"
	"github.com/jackalLabs/canine-chain/v4/x/jklmint"
	minttypes "github.com/jackalLabs/canine-chain/v4/x/jklmint/types"
	"github.com/jackalLabs/canine-chain/v4/x/notifications"
	notiftypes "github.com/jackalLabs/canine-chain/v4/x/notifications/types"
	"github.com/jackalLabs/canine-chain/v4/x/oracle"
	oracletypes "github.com/jackalLabs/canine-chain/v4/x/oracle/types"
	"github.com/jackalLabs/canine-chain/v4/x/rns"
	rnstypes "github.com/jackalLabs/canine-chain/v4/x/rns/types"
	"github.com/jackalLabs/canine-chain/v4/x/storage"
	storagetypes "github.com/jackalLabs/canine-chain/v4/x/storage/types"

	"verifharness/chain"
	"verifharness/ev"
)

var c19Stores = []string{storagetypes.StoreKey, rnstypes.StoreKey, fttypes.StoreKey, oracletypes.StoreKey, notiftypes.StoreKey, minttypes.StoreKey}

var c19Prefixes = map[string][]string{
	storagetypes.StoreKey: {"FilesByOwner/value/", "FilesByMerkle/value/", "FileProof/value/", "StoragePaymentInfo/value/", "PaymentGauge/value/", "Providers/value/", "ActiveProviders/value/", "Collateral/value/", "Attestation/value/", "Report/value/", "ClientUsage/value/", "PayBlocks/value/", "ActiveDeals/value/"},
	rnstypes.StoreKey:     {"Bids/value/", "Forsale/value/", "Init/value/", "Names/value/", "PrimaryName/value/", "Whois/value/"},
	fttypes.StoreKey:      {"Files/value/", "Pubkey/value/"},
	oracletypes.StoreKey:  {"Feed/value/"},
	notiftypes.StoreKey:   {"Notification/"},
	minttypes.StoreKey:    {minttypes.LastBlockMinted},
}

// prefixOf classifies a raw key of a store.
// c19Class classifies a record by key and, where the key layout says nothing, by what its value decodes to: a block-list
// entry stays a block-list entry under whatever key the module files it.
func c19Class(c *chain.Chain, store string, key, value []byte) string {
	p := c19PrefixOf(store, key)
	if store == notiftypes.StoreKey && strings.HasPrefix(p, "?") {
		var b notiftypes.Block
		if err := c.App.AppCodec().Unmarshal(value, &b); err == nil && b.Address != "" && b.BlockedAddress != "" {
			if _, e1 := sdk.AccAddressFromBech32(b.Address); e1 == nil {
				if _, e2 := sdk.AccAddressFromBech32(b.BlockedAddress); e2 == nil {
					return "Notification/(block-entries)"
				}
			}
		}
	}
	return p
}

func c19PrefixOf(store string, key []byte) string {
	for _, p := range c19Prefixes[store] {
		if bytes.HasPrefix(key, []byte(p)) {
			if store == notiftypes.StoreKey {
				if bytes.Count(key[len(p):], []byte("/")) == 1 {
					return p + "(block-entries)"
				}
				return p + "(notifications)"
			}
			return p
		}
	}
	k := string(key)
	if i := strings.Index(k, "/"); i >= 0 {
		k = k[:i+1] // an unknown record kind is named by its prefix up to the first separator
	} else if len(k) > 16 {
		k = k[:16]
	}
	return "?" + k
}

// unobservable state: written by InitGenesis, read by nothing (the active-provider list is recomputed from proofs)
var c19Ignore = map[string]bool{storagetypes.StoreKey + ":ActiveProviders/value/": true}

// record kinds the genesis protos have no field for (known findings; cannot be repaired without protoc)
var c19KnownLoss = []string{
	storagetypes.StoreKey + ":FileProof/value/",
	rnstypes.StoreKey + ":PrimaryName/value/",
	notiftypes.StoreKey + ":Notification/(block-entries)",
	minttypes.StoreKey + ":" + minttypes.LastBlockMinted,
}

func c19Sig(storePrefix string) string { return "C19/kv-roundtrip/" + storePrefix }

type c19Export struct {
	Storage *storagetypes.GenesisState
	Rns     *rnstypes.GenesisState
	Ft      *fttypes.GenesisState
	Oracle  *oracletypes.GenesisState
	Notif   *notiftypes.GenesisState
	Mint    *minttypes.GenesisState
}

func c19DoExport(c *chain.Chain, ctx sdk.Context) c19Export {
	return c19Export{
		Storage: storage.ExportGenesis(ctx, c.App.StorageKeeper),
		Rns:     rns.ExportGenesis(ctx, c.App.RnsKeeper),
		Ft:      filetree.ExportGenesis(ctx, c.App.FileTreeKeeper),
		Oracle:  oracle.ExportGenesis(ctx, c.App.OracleKeeper),
		Notif:   notifications.ExportGenesis(ctx, c.App.NotificationsKeeper),
		Mint:    jklmint.ExportGenesis(ctx, c.App.MintKeeper),
	}
}

func (e c19Export) validate() error {
	if err := e.Storage.Validate(); err != nil {
		return fmt.Errorf("storage: %w", err)
	}
	if err := e.Rns.Validate(); err != nil {
		return fmt.Errorf("rns: %w", err)
	}
	if err := e.Ft.Validate(); err != nil {
		return fmt.Errorf("filetree: %w", err)
	}
	if err := e.Oracle.Validate(); err != nil {
		return fmt.Errorf("oracle: %w", err)
	}
	if err := e.Notif.Validate(); err != nil {
		return fmt.Errorf("notifications: %w", err)
	}
	if err := e.Mint.Validate(); err != nil {
		return fmt.Errorf("jklmint: %w", err)
	}
	return nil
}

func (e c19Export) raw(c *chain.Chain) map[string]json.RawMessage {
	cdc := c.App.AppCodec()
	return map[string]json.RawMessage{
		storagetypes.ModuleName: cdc.MustMarshalJSON(e.Storage),
		rnstypes.ModuleName:     cdc.MustMarshalJSON(e.Rns),
		fttypes.ModuleName:      cdc.MustMarshalJSON(e.Ft),
		oracletypes.ModuleName:  cdc.MustMarshalJSON(e.Oracle),
		notiftypes.ModuleName:   cdc.MustMarshalJSON(e.Notif),
		minttypes.ModuleName:    cdc.MustMarshalJSON(e.Mint),
	}
}

// c19PointKeys lists, from the store listings of a state, the records the point queries below are asked about.
type c19PointKeys struct {
	Feeds     []string
	Names     []string
	Files     [][2]string // filetree (address, owner)
	Providers []string
}

func c19Keys(c *chain.Chain, ctx sdk.Context) (k c19PointKeys) {
	for _, f := range c.App.OracleKeeper.GetAllFeeds(ctx) {
		k.Feeds = append(k.Feeds, f.Name)
	}
	for _, n := range c.App.RnsKeeper.GetAllNames(ctx) {
		k.Names = append(k.Names, n.Name+"."+n.Tld)
	}
	for _, f := range c.App.FileTreeKeeper.GetAllFiles(ctx) {
		k.Files = append(k.Files, [2]string{f.Address, f.Owner})
	}
	for _, p := range c.App.StorageKeeper.GetAllProviders(ctx) {
		k.Providers = append(k.Providers, p.Address)
	}
	return
}

// c19PointQueries asks the modules' own single-record queries (what a client reads) about the given records.
func c19PointQueries(c *chain.Chain, ctx sdk.Context, k c19PointKeys) map[string]string {
	out := map[string]string{}
	g := sdk.WrapSDKContext(ctx)
	show := func(v interface{}, err error) string {
		if err != nil {
			return "error"
		}
		return fmt.Sprintf("%v", v)
	}
	for _, n := range k.Feeds {
		r, err := c.App.OracleKeeper.Feed(g, &oracletypes.QueryFeed{Name: n})
		out["oracle/Feed/"+n] = show(r, err)
	}
	for _, n := range k.Names {
		r, err := c.App.RnsKeeper.Name(g, &rnstypes.QueryName{Name: n})
		out["rns/Name/"+n] = show(r, err)
	}
	for _, f := range k.Files {
		r, err := c.App.FileTreeKeeper.File(g, &fttypes.QueryFile{Address: f[0], OwnerAddress: f[1]})
		out["filetree/File/"+f[0]+"/"+f[1]] = show(r, err)
	}
	for _, p := range k.Providers {
		r, err := c.App.StorageKeeper.Provider(g, &storagetypes.QueryProvider{Address: p})
		out["storage/Provider/"+p] = show(r, err)
	}
	return out
}

type c19Result struct {
	failures map[string]string // signature -> description (one per store:prefix)
	prefixes map[string]bool   // populated store:prefix in the source
	other    string
}

// c19RoundTrip exports the six modules from (c, ctx), imports them into a fresh app and compares.
func c19RoundTrip(c *chain.Chain, ctx sdk.Context) (res c19Result) {
	res.failures, res.prefixes = map[string]string{}, map[string]bool{}
	keys := c19Keys(c, ctx)
	srcQ := c19PointQueries(c, ctx, keys)
	exp := c19DoExport(c, ctx)
	if err := exp.validate(); err != nil {
		res.other = "exported genesis does not validate: " + err.Error()
		return
	}
	var restored *chain.Chain
	func() {
		defer func() {
			if r := recover(); r != nil {
				res.other = fmt.Sprintf("initialising a fresh chain from the exported genesis panicked: %v", r)
			}
		}()
		opts := historyGenesis(4, 3, 10)
		opts.Storage = nil
		opts.Raw = exp.raw(c)
		restored = chain.New(opts)
	}()
	if restored == nil {
		return
	}
	defer restored.Close()
	rctx := restored.BaseCtx(1, chain.GenesisTime)
	// every record readable through the modules' single-record queries before the export reads the same afterwards
	dstQ := c19PointQueries(restored, rctx, keys)
	for _, q := range sortedKeysOf(srcQ) {
		if srcQ[q] != dstQ[q] {
			mod := strings.SplitN(q, "/", 3)
			sig := "C19/query-roundtrip/" + mod[0] + "/" + mod[1]
			if _, seen := res.failures[sig]; !seen {
				res.failures[sig] = fmt.Sprintf("query %s answers %s before the export and %s after the import", trunc(q, 80), trunc(srcQ[q], 160), trunc(dstQ[q], 160))
			}
		}
	}
	// KV comparison per store / prefix
	for _, st := range c19Stores {
		src := map[string][]byte{}
		for _, kv := range chain.DumpPrefix(c, ctx, st, nil) {
			src[string(kv.K)] = kv.V
			res.prefixes[st+":"+c19Class(c, st, kv.K, kv.V)] = true
		}
		dst := map[string][]byte{}
		for _, kv := range chain.DumpPrefix(restored, rctx, st, nil) {
			dst[string(kv.K)] = kv.V
		}
		keys := map[string]bool{}
		for k := range src {
			keys[k] = true
		}
		for k := range dst {
			keys[k] = true
		}
		for _, k := range sortedStrings(keys) {
			s, okS := src[k]
			d, okD := dst[k]
			val := s
			if !okS {
				val = d
			}
			sp := st + ":" + c19Class(c, st, []byte(k), val)
			if c19Ignore[sp] {
				continue
			}
			var what string
			switch {
			case okS && !okD:
				what = fmt.Sprintf("record %q exists before export but not after import", trunc(k, 90))
			case !okS && okD:
				what = fmt.Sprintf("record %q appears only after import", trunc(k, 90))
			case !bytes.Equal(s, d):
				what = fmt.Sprintf("record %q has a different value after import", trunc(k, 90))
			default:
				continue
			}
			if _, seen := res.failures[c19Sig(sp)]; !seen {
				res.failures[c19Sig(sp)] = what
			}
		}
	}
	// params
	if c.App.StorageKeeper.GetParams(ctx) != restored.App.StorageKeeper.GetParams(rctx) {
		res.failures["C19/params/storage"] = "storage params differ after import"
	}
	if c.App.MintKeeper.GetParams(ctx) != restored.App.MintKeeper.GetParams(rctx) {
		res.failures["C19/params/jklmint"] = "jklmint params differ after import"
	}
	if c.App.RnsKeeper.GetParams(ctx) != restored.App.RnsKeeper.GetParams(rctx) {
		res.failures["C19/params/rns"] = "rns params differ after import"
	}
	if c.App.OracleKeeper.GetParams(ctx) != restored.App.OracleKeeper.GetParams(rctx) {
		res.failures["C19/params/oracle"] = "oracle params differ after import"
	}
	// exporting again yields the same genesis (active-provider list is derived from proof records, a known loss)
	again := c19DoExport(restored, rctx)
	if _, lost := res.failures[c19Sig(storagetypes.StoreKey+":FileProof/value/")]; lost {
		exp.Storage.ActiveProvidersList, again.Storage.ActiveProvidersList = nil, nil
	}
	a, b := exp.raw(c), again.raw(restored)
	mods := make([]string, 0, len(a))
	for m := range a {
		mods = append(mods, m)
	}
	sort.Strings(mods)
	for _, m := range mods {
		if !bytes.Equal(a[m], b[m]) {
			res.failures["C19/re-export/"+m] = fmt.Sprintf("exporting %s again after the import gives a different genesis section", m)
		}
	}
	return
}

func TestC19(t *testing.T) {
	rec := ev.For("C19")
	rec.Describe("ABCI histories (the generator of C06: providers, collateral, claimers, plans, gauges, files with provers, open attestation and report forms, names with records / listings / bids / init markers / primary names, file-tree entries and public keys, oracle feeds, notifications and block entries, several minted blocks) are executed on a real app; then the six custom modules are exported with their ExportGenesis, each section validated, a fresh app initialised from a genesis carrying those sections, and compared: sorted raw KV dump of every custom store per key prefix (source vs restored), module params, and the re-exported genesis. A second search does the same from fork-mode worlds (uncommitted state): name-service histories with height jumps around and beyond expiries (listings and bids left over), and worlds in which owners' resources of all modules are hit by 5-40 reflectively generated messages of all 45 types between block boundaries (mint and storage begin-block) and governance parameter changes (any value the per-key parameter validators accept). Record kinds the genesis protos have no field for are listed in known_findings.json and excluded from the search comparison (counted); any other prefix that fails is a violation. Non-trivial = the source state had records under >= 8 distinct prefixes; distinct = distinct recorded histories.",
		"ActiveProviders/value/ is written by InitGenesis and read by nothing (the active-provider list is recomputed from proofs): not compared",
		"bank/auth state is not carried over (custom InitGenesis functions do not depend on it)")
	// ---- plain regression replay of the known omissions ----
	{
		sp := chain.DefaultStorageParams()
		sp.CollateralPrice = 1000
		c := chain.New(chain.GenesisOpts{NumAccounts: 4, Balance: sdk.NewCoins(sdk.NewInt64Coin("ujkl", 1_000_000_000_000)), Storage: &sp})
		w := &storWorld{c: c, f: c.Fork(1, chain.GenesisTime.Add(6*time.Second))}
		a, p := chain.Acc(0), chain.Acc(1)
		w.f.BeginCustom(true, false) // a minted block
		w.buyStorage(a, a.Bech, 30, 1_000_000_000, "")
		w.initProvider(p, "https://p.example.com")
		f, _ := w.postFile(a, c02Content(100), 2, 0)
		w.honestProve(p, f)                                                                      // a FileProof record
		w.f.Exec(newMsgRegisterName(a.Bech, "alpha.jkl", 1, "{}", true))                         // a primary name
		w.f.Exec(&notiftypes.MsgBlockSenders{Creator: a.Bech, ToBlock: []string{p.Bech}})        // a block entry
		w.f.Exec(&notiftypes.MsgCreateNotification{Creator: a.Bech, To: p.Bech, Contents: "{}"}) // a real notification
		r := c19RoundTrip(c, w.f.Ctx)
		for _, sp := range c19KnownLoss {
			what, failed := r.failures[c19Sig(sp)]
			rec.Regress(c19Sig(sp), failed, what)
			delete(r.failures, c19Sig(sp))
		}
		delete(r.failures, "C19/re-export/jklmint")
		if r.other != "" {
			rec.Regress("C19/scenario/other", true, r.other)
		}
		for _, s := range sortedKeysOf(r.failures) {
			rec.Regress(s, true, r.failures[s])
		}
		c.Close()
	}
	if os_only_regress() {
		return
	}
	search(t, rec, "roundtrip", budget(50, 16000), 0, func(rt *rapid.T) {
		b, panicMsg := buildHistory(rt, true)
		defer b.c.Close()
		if panicMsg != "" {
			rt.Skip()
		}
		if p := b.begin(6 * time.Second); p != "" { // open a block so that the deliver state can be read
			rt.Skip()
		}
		r := c19RoundTrip(b.c, b.c.DeliverCtx())
		if r.other != "" {
			failf(rt, rec, "C19/export-import", b.trace, "%s", r.other)
		}
		for _, sp := range c19KnownLoss {
			if _, failed := r.failures[c19Sig(sp)]; failed && ev.Known(c19Sig(sp)) {
				delete(r.failures, c19Sig(sp))
				rec.Exclude(c19Sig(sp))
			}
		}
		for _, s := range sortedKeysOf(r.failures) {
			failf(rt, rec, s, b.trace, "%s", r.failures[s])
		}
		for p := range r.prefixes {
			rec.Count("populated:" + p)
		}
		rec.Case(len(r.prefixes) >= 8, ev.Hash(string(b.rec.json())), func() interface{} {
			return map[string]interface{}{"populated_prefixes": sortedStrings(r.prefixes), "history_tail": tail(b.trace, 15)}
		})
	})
	_ = strings.Join

	// ---- fork-mode worlds: states the ABCI histories do not reach (names around and beyond their expiry with
	// listings and bids left over; arbitrary messages of all 45 types against owners' resources; reward and minted
	// blocks) are exported from the uncommitted state and imported into a fresh app ----
	rc := chain.New(rnsGenesis())
	defer rc.Close()
	sp := chain.DefaultStorageParams()
	sp.CollateralPrice = 1000
	sc := chain.New(chain.GenesisOpts{NumAccounts: 6, Balance: sdk.NewCoins(sdk.NewInt64Coin("ujkl", 1_000_000_000_000)), Storage: &sp})
	defer sc.Close()
	urls := customMsgURLs(sc)
	judge := func(rt *rapid.T, r c19Result, trace []string, id string) {
		if r.other != "" {
			failf(rt, rec, "C19/export-import", trace, "%s", r.other)
		}
		for _, sp := range c19KnownLoss {
			if _, failed := r.failures[c19Sig(sp)]; failed && ev.Known(c19Sig(sp)) {
				delete(r.failures, c19Sig(sp))
				rec.Exclude(c19Sig(sp))
			}
		}
		if ev.Known(c19Sig(minttypes.StoreKey + ":" + minttypes.LastBlockMinted)) {
			delete(r.failures, "C19/re-export/jklmint") // the same known omission seen through the second export
		}
		for _, s := range sortedKeysOf(r.failures) {
			failf(rt, rec, s, trace, "%s", r.failures[s])
		}
		for p := range r.prefixes {
			rec.Count("populated:" + p)
		}
		rec.Case(len(r.prefixes) >= 4, ev.Hash(id, strings.Join(trace, "\n")), func() interface{} {
			return map[string]interface{}{"populated_prefixes": sortedStrings(r.prefixes), "history_tail": tail(trace, 15)}
		})
	}
	search(t, rec, "fork-worlds", budget(150, 48000), 40, func(rt *rapid.T) {
		if rapid.Bool().Draw(rt, "nameServiceWorld") {
			w := rnsMachine(rt, rc, rnsWeights{bidHeavy: true}, func(*rnsWorld, *rnsStep) *rnsFailure { return nil }, rec)
			rec.Count("fork-world:name-service")
			judge(rt, c19RoundTrip(rc, w.f.Ctx), w.trace, "rns")
			return
		}
		w := newStorWorld(sc, 5)
		accs := make([]chain.Account, 5)
		for i := range accs {
			accs[i] = chain.Acc(i)
		}
		for i, a := range accs[:3] {
			w.initProvider(a, fmt.Sprintf("https://o%d.dom%d.com", i, i))
			w.f.Exec(&storagetypes.MsgAddClaimer{Creator: a.Bech, ClaimAddress: accs[4].Bech})
			w.f.Exec(&oracletypes.MsgCreateFeed{Creator: a.Bech, Name: fmt.Sprintf("feed%d", i)})
			w.f.Exec(&oracletypes.MsgUpdateFeed{Creator: a.Bech, Name: fmt.Sprintf("feed%d", i), Data: `{"price":"1"}`})
			w.f.Exec(newMsgRegisterName(a.Bech, fmt.Sprintf("owner%d.jkl", i), 1, "{}", i%2 == 0))
			w.f.Exec(&notiftypes.MsgCreateNotification{Creator: accs[(i+1)%3].Bech, To: a.Bech, Contents: "{}"})
			w.buyStorage(a, a.Bech, 30, 1_000_000_000, "")
			f, _ := w.postFile(a, append([]byte{byte(i + 1)}, c02Content(50)...), 2, 0)
			w.honestProve(accs[(i+1)%3], f)
			w.f.Exec(fttypes.NewMsgPostKey(a.Bech, fmt.Sprintf("key-of-%d", i)))
			w.f.Exec(newMsgProvisionFileTree(a.Bech, "{}", "{}", fmt.Sprintf("tn%d", i)))
		}
		env := func() *fillEnv {
			e := &fillEnv{Height: w.f.Height(), Names: []string{"owner0.jkl", "owner1.jkl", "owner2.jkl", "new.jkl", "other.ibc", "feed0", "feed1", "feed9"}}
			for _, a := range accs {
				e.Accounts = append(e.Accounts, a.Bech)
			}
			for _, f := range w.c.App.StorageKeeper.GetAllFileByMerkle(w.f.Ctx) {
				e.Merkles = append(e.Merkles, f.Merkle)
				e.Starts = append(e.Starts, f.Start)
			}
			for _, n := range w.c.App.NotificationsKeeper.GetAllNotifications(w.f.Ctx) {
				e.Starts = append(e.Starts, n.Time)
			}
			for _, f := range w.c.App.FileTreeKeeper.GetAllFiles(w.f.Ctx) {
				e.Strings = append(e.Strings, f.Address, f.Owner)
			}
			e.Strings = append(e.Strings, "feed0", "owner0.jkl", "{}")
			return e
		}
		for i, steps := 0, rapid.IntRange(5, 40).Draw(rt, "steps"); i < steps; i++ {
			m := newMsgOf(sc, urls[rapid.IntRange(0, len(urls)-1).Draw(rt, "type")])
			fillMsg(rt, m, env(), nil)
			res := w.f.Exec(m)
			w.logf("%s -> %s", msgSummary(m), trunc(res.String(), 60))
			if rapid.IntRange(0, 9).Draw(rt, "rolledBack") == 0 {
				// one transaction whose last message fails: an owner's update of its feed / name / provider record is discarded
				a := accs[rapid.IntRange(0, 2).Draw(rt, "batchOwner")]
				var first sdk.Msg
				switch rapid.IntRange(0, 2).Draw(rt, "batchKind") {
				case 0:
					first = &oracletypes.MsgUpdateFeed{Creator: a.Bech, Name: fmt.Sprintf("feed%d", a.Index), Data: `{"price":"9999"}`}
				case 1:
					first = rnstypes.NewMsgUpdate(a.Bech, fmt.Sprintf("owner%d.jkl", a.Index), `{"rolled":"back"}`)
				default:
					first = storagetypes.NewMsgSetProviderKeybase(a.Bech, "rolled-back")
				}
				failing := rnstypes.NewMsgTransfer(a.Bech, "no-such-name-at-all.jkl", accs[3].Bech)
				res := w.f.ExecAtomic(first, failing)
				w.logf("one transaction: %s, then a message that fails -> %s", msgSummary(first), trunc(res.String(), 60))
				rec.Count("fork-world:rolled-back-transactions")
			}
			if rapid.IntRange(0, 9).Draw(rt, "governance") == 0 {
				// a parameter-change proposal: any value the per-key validators of the parameter store accept (they are what a
				// proposal is checked against); the exported genesis of such a state must still validate and round-trip
				val := func(l string) int64 {
					return rapid.SampledFrom([]int64{0, 1, 2, 5, 8, 12, 40, 80, 85, 100, 101, 200, 4_200_000, 1 << 40, math.MaxInt64}).Draw(rt, l)
				}
				if rapid.Bool().Draw(rt, "mintParams") {
					mp := sc.App.MintKeeper.GetParams(w.f.Ctx)
					mp.TokensPerBlock, mp.MintDecrease = val("tokensPerBlock"), val("mintDecrease")
					mp.StakerRatio, mp.DevGrantsRatio, mp.StorageProviderRatio = val("stakerRatio"), val("devRatio"), val("providerRatio")
					if pairsValid(mp.ParamSetPairs()) {
						sc.App.MintKeeper.SetParams(w.f.Ctx, mp)
						w.logf("governance sets mint params %d / %d / %d %d %d", mp.TokensPerBlock, mp.MintDecrease, mp.StakerRatio, mp.DevGrantsRatio, mp.StorageProviderRatio)
						rec.Count("fork-world:governance-mint-params")
					}
				} else {
					sp := w.params()
					sp.ProofWindow, sp.CheckWindow, sp.ChunkSize, sp.MissesToBurn = val("proofWindow"), val("checkWindow"), val("chunkSize"), val("missesToBurn")
					sp.PolRatio, sp.ReferralCommission, sp.PricePerTbPerMonth = val("polRatio"), val("referralCommission"), val("pricePerTb")
					sp.MaxContractAgeInBlocks, sp.AttestFormSize, sp.AttestMinToPass, sp.CollateralPrice = val("maxAge"), val("formSize"), val("minToPass"), val("collateralPrice")
					if sp.CheckWindow > 1000 {
						sp.CheckWindow = 7 // keep reward blocks within reach of the history
					}
					if pairsValid(sp.ParamSetPairs()) {
						sc.App.StorageKeeper.SetParams(w.f.Ctx, sp)
						w.logf("governance sets storage params %+v", sp)
						rec.Count("fork-world:governance-storage-params")
					}
				}
			}
			if rapid.IntRange(0, 5).Draw(rt, "tick") == 0 {
				w.f.SetBlock(w.f.Height()+rapid.Int64Range(1, 120).Draw(rt, "blocks"), w.f.Time().Add(time.Duration(rapid.Int64Range(1, 100000).Draw(rt, "seconds"))*time.Second))
				if bb := w.f.BeginCustom(true, true); bb.Panic != nil {
					rt.Skip() // block-processing panics are C05's subject
				}
				w.logf("block boundary (mint and storage begin-block)")
			}
		}
		rec.Count("fork-world:all-message-types")
		judge(rt, c19RoundTrip(sc, w.f.Ctx), w.trace, "all")
	})
}

// pairsValid runs the per-key validators of a parameter set, as the parameter store does on every write.
func pairsValid(pairs paramtypes.ParamSetPairs) bool {
	for _, p := range pairs {
		if p.ValidatorFn(reflect.ValueOf(p.Value).Elem().Interface()) != nil {
			return false
		}
	}
	return true
}

func sortedKeysOf(m map[string]string) []string {
	out := make([]string, 0, len(m))
	for k := range m {
		out = append(out, k)
	}
	sort.Strings(out)
	return out
}

func tail(s []string, n int) []string {
	if len(s) > n {
		return s[len(s)-n:]
	}
	return s
}
