module verifharness

go 1.23

toolchain go1.23.5

require (
	github.com/CosmWasm/wasmd v0.32.0
	github.com/CosmWasm/wasmvm v1.2.6
	github.com/cosmos/cosmos-sdk v0.45.17
	github.com/gogo/protobuf v1.3.3
	github.com/jackalLabs/canine-chain/v4 v4.0.0
	github.com/tendermint/tendermint v0.34.27
	github.com/tendermint/tm-db v0.6.7
	github.com/wealdtech/go-merkletree/v2 v2.5.1-0.20231106114422-6769f4468d71
	pgregory.net/rapid v1.3.0
)

require (
	cosmossdk.io/api v0.2.6 // indirect
	cosmossdk.io/core v0.5.1 // indirect
	cosmossdk.io/depinject v1.0.0-alpha.3 // indirect
	filippo.io/edwards25519 v1.0.0-rc.1 // indirect
	github.com/99designs/keyring v1.2.1 // indirect
	github.com/ChainSafe/go-schnorrkel v0.0.0-20200405005733-88cbf1b4c40d // indirect
	github.com/Workiva/go-datastructures v1.0.53 // indirect
	github.com/armon/go-metrics v0.4.1 // indirect
	github.com/beorn7/perks v1.0.1 // indirect
	github.com/bgentry/speakeasy v0.1.1-0.20220910012023-760eaf8b6816 // indirect
	github.com/btcsuite/btcd/btcec/v2 v2.3.2 // indirect
	github.com/cespare/xxhash/v2 v2.2.0 // indirect
	github.com/coinbase/rosetta-sdk-go v0.7.9 // indirect
	github.com/cometbft/cometbft-db v0.7.0 // indirect
	github.com/confio/ics23/go v0.9.1 // indirect
	github.com/cosmos/btcutil v1.0.4 // indirect
	github.com/cosmos/cosmos-db v0.0.0-20221226095112-f3c38ecb5e32 // indirect
	github.com/cosmos/cosmos-proto v1.0.0-beta.3 // indirect
	github.com/cosmos/go-bip39 v1.0.0 // indirect
	github.com/cosmos/gogoproto v1.4.10 // indirect
	github.com/cosmos/iavl v0.19.5 // indirect
	github.com/cosmos/ibc-go/v4 v4.6.0 // indirect
	github.com/cosmos/interchain-accounts v0.2.6 // indirect
	github.com/creachadair/taskgroup v0.3.2 // indirect
	github.com/davecgh/go-spew v1.1.1 // indirect
	github.com/decred/dcrd/dcrec/secp256k1/v4 v4.2.0 // indirect
	github.com/desertbit/timer v0.0.0-20180107155436-c41aec40b27f // indirect
	github.com/docker/distribution v2.8.1+incompatible // indirect
	github.com/dvsekhvalnov/jose2go v1.5.0 // indirect
	github.com/ecies/go/v2 v2.0.6 // indirect
	github.com/ethereum/go-ethereum v1.11.5 // indirect
	github.com/felixge/httpsnoop v1.0.2 // indirect
	github.com/fsnotify/fsnotify v1.6.0 // indirect
	github.com/go-kit/kit v0.12.0 // indirect
	github.com/go-kit/log v0.2.1 // indirect
	github.com/go-logfmt/logfmt v0.5.1 // indirect
	github.com/godbus/dbus v0.0.0-20190726142602-4481cbc300e2 // indirect
	github.com/gogo/gateway v1.1.0 // indirect
	github.com/golang/protobuf v1.5.3 // indirect
	github.com/golang/snappy v0.0.4 // indirect
	github.com/google/btree v1.1.2 // indirect
	github.com/google/go-cmp v0.5.9 // indirect
	github.com/google/gofuzz v1.2.0 // indirect
	github.com/google/orderedcode v0.0.1 // indirect
	github.com/google/uuid v1.3.0 // indirect
	github.com/gorilla/handlers v1.5.1 // indirect
	github.com/gorilla/mux v1.8.0 // indirect
	github.com/gorilla/websocket v1.5.0 // indirect
	github.com/grpc-ecosystem/go-grpc-middleware v1.3.0 // indirect
	github.com/grpc-ecosystem/grpc-gateway v1.16.0 // indirect
	github.com/gsterjov/go-libsecret v0.0.0-20161001094733-a6f4afe4910c // indirect
	github.com/gtank/merlin v0.1.1 // indirect
	github.com/gtank/ristretto255 v0.1.2 // indirect
	github.com/hashicorp/go-immutable-radix v1.3.1 // indirect
	github.com/hashicorp/golang-lru v0.5.5-0.20210104140557-80c98217689d // indirect
	github.com/hashicorp/hcl v1.0.0 // indirect
	github.com/hdevalence/ed25519consensus v0.0.0-20220222234857-c00d1f31bab3 // indirect
	github.com/improbable-eng/grpc-web v0.14.1 // indirect
	github.com/klauspost/compress v1.16.3 // indirect
	github.com/lib/pq v1.10.7 // indirect
	github.com/libp2p/go-buffer-pool v0.1.0 // indirect
	github.com/magiconair/properties v1.8.6 // indirect
	github.com/mattn/go-colorable v0.1.13 // indirect
	github.com/mattn/go-isatty v0.0.16 // indirect
	github.com/matttproud/golang_protobuf_extensions v1.0.4 // indirect
	github.com/mimoo/StrobeGo v0.0.0-20210601165009-122bf33a46e0 // indirect
	github.com/minio/highwayhash v1.0.2 // indirect
	github.com/mitchellh/mapstructure v1.5.0 // indirect
	github.com/mtibben/percent v0.2.1 // indirect
	github.com/opencontainers/go-digest v1.0.0 // indirect
	github.com/pelletier/go-toml/v2 v2.0.5 // indirect
	github.com/pkg/errors v0.9.1 // indirect
	github.com/pmezard/go-difflib v1.0.0 // indirect
	github.com/prometheus/client_golang v1.16.0 // indirect
	github.com/prometheus/client_model v0.3.0 // indirect
	github.com/prometheus/common v0.42.0 // indirect
	github.com/prometheus/procfs v0.10.1 // indirect
	github.com/rakyll/statik v0.1.7 // indirect
	github.com/rcrowley/go-metrics v0.0.0-20201227073835-cf1acfcdf475 // indirect
	github.com/regen-network/cosmos-proto v0.3.1 // indirect
	github.com/rs/cors v1.8.2 // indirect
	github.com/rs/zerolog v1.27.0 // indirect
	github.com/spf13/afero v1.9.2 // indirect
	github.com/spf13/cast v1.5.1 // indirect
	github.com/spf13/cobra v1.7.0 // indirect
	github.com/spf13/jwalterweatherman v1.1.0 // indirect
	github.com/spf13/pflag v1.0.5 // indirect
	github.com/spf13/viper v1.14.0 // indirect
	github.com/stretchr/testify v1.8.4 // indirect
	github.com/subosito/gotenv v1.4.1 // indirect
	github.com/syndtr/goleveldb v1.0.1-0.20210819022825-2ae1ddf74ef7 // indirect
	github.com/tendermint/go-amino v0.16.0 // indirect
	github.com/tidwall/btree v1.5.0 // indirect
	golang.org/x/crypto v0.8.0 // indirect
	golang.org/x/exp v0.0.0-20230321023759-10a507213a29 // indirect
	golang.org/x/net v0.9.0 // indirect
	golang.org/x/sys v0.8.0 // indirect
	golang.org/x/term v0.7.0 // indirect
	golang.org/x/text v0.9.0 // indirect
	google.golang.org/genproto v0.0.0-20230320184635-7606e756e683 // indirect
	google.golang.org/grpc v1.55.0 // indirect
	google.golang.org/protobuf v1.30.0 // indirect
	gopkg.in/ini.v1 v1.67.0 // indirect
	gopkg.in/yaml.v2 v2.4.0 // indirect
	gopkg.in/yaml.v3 v3.0.1 // indirect
	nhooyr.io/websocket v1.8.6 // indirect
)

replace (
	github.com/99designs/keyring => github.com/cosmos/keyring v1.2.0
	github.com/confio/ics23/go => github.com/cosmos/cosmos-sdk/ics23/go v0.8.0
	github.com/cosmos/cosmos-sdk => github.com/JackalLabs/cosmos-sdk-new v0.45.17-0.20241017203511-c9e1d384026b
	github.com/gin-gonic/gin => github.com/gin-gonic/gin v1.8.1
	github.com/gogo/protobuf => github.com/regen-network/protobuf v1.3.3-alpha.regen.1
	github.com/jackalLabs/canine-chain/v4 => /repo
	github.com/tendermint/tendermint => github.com/cometbft/cometbft v0.34.27
	google.golang.org/grpc => google.golang.org/grpc v1.33.2
)
