#!/bin/bash
# mutant.sh <ID> <file-relative-to-repo> <python-expr-old> <python-expr-new> [tier]
# Sensitivity helper: copy /repo HEAD to a scratch worktree, replace one snippet, run a check against it, clean up.
# Prints "KILLED" when the check exits 1, "SURVIVED" when it exits 0.
id=$1; file=$2; old=$3; new=$4; tier=${5:-quick}
dir=/tmp/mut/m$$
mkdir -p /tmp/mut
git -C /repo worktree add --detach -q "$dir" HEAD || exit 2
python3 - "$dir/$file" "$old" "$new" <<'PY'
import sys
p,old,new=sys.argv[1:4]
s=open(p).read()
if old not in s:
    print("MUTANT: snippet not found in", p); sys.exit(3)
open(p,'w').write(s.replace(old,new,1))
PY
rc=$?
if [ $rc -eq 0 ]; then
  (cd "$dir" && GOFLAGS=-mod=mod GOPROXY=off GOSUMDB=off GOTOOLCHAIN=local go build ./x/... 2>&1 | tail -5)
  cd /verif && VERIF_REPO="$dir" ./check "$id" "$tier" 2>&1 | grep -v "^built" | tail -6
  rc=${PIPESTATUS[0]}
  if [ $rc -eq 1 ]; then echo "MUTANT $id [$file]: KILLED"; elif [ $rc -eq 0 ]; then echo "MUTANT $id [$file]: SURVIVED"; else echo "MUTANT $id [$file]: INCONCLUSIVE rc=$rc"; fi
fi
git -C /repo worktree remove --force "$dir"
rm -f /verif/.work/bin/harness-_tmp_mut_m$$.test /verif/.work/alt-_tmp_mut_m$$.*
exit $rc
