package props

// Rich ABCI histories (signed transactions through BeginBlock/DeliverTx/EndBlock/Commit) that populate
// every record kind of the custom modules.  Generated while executing on a primary app; the signed bytes
// are recorded so that the identical history can be replayed on other app instances (C06) and the final
// state exported (C19).

import (
	"encoding/hex"
	"encoding/json"
	"fmt"
	"math"
	"runtime"
	"strings"
	"time"
	_ "time/tzdata" // zone rules embedded: the sandbox may have no zoneinfo files

	sdk "github.com/cosmos/cosmos-sdk/types"
	abci "github.com/tendermint/tendermint/abci/types"
	"pgregory.net/rapid"

	fttypes "github.com/jackalLabs/canine-chain/v4/x/filetree/types"
	notiftypes "github.com/jackalLabs/canine-chain/v4/x/notifications/types"
	oracletypes "github.com/jackalLabs/canine-chain/v4/x/oracle/types"
	rnstypes "github.com/jackalLabs/canine-chain/v4/x/rns/types"
	storagetypes "github.com/jackalLabs/canine-chain/v4/x/storage/types"

	"verifharness/chain"
)

type recBlock struct {
	DtNanos int64    `json:"dt"`
	Txs     []string `json:"txs"` // hex of signed tx bytes
}

type recHistory struct {
	Window, Check int64
	NumAccounts   int
	GenesisUnix   int64 // 0: the fixed genesis time; otherwise a genesis time chosen relative to the wall clock at recording
	Blocks        []recBlock
}

type txResult struct {
	Code      uint32
	Codespace string
	GasWanted int64
	GasUsed   int64
	Data      string
	Events    []string
}

type blockResult struct {
	Height  int64
	Begin   []string
	Txs     []txResult
	End     []string
	AppHash string
	Panic   string
}

func flattenEvents(evs []abci.Event) []string {
	out := make([]string, 0, len(evs))
	for _, e := range evs {
		var sb strings.Builder
		sb.WriteString(e.Type)
		for _, a := range e.Attributes {
			sb.WriteString("|")
			sb.Write(a.Key)
			sb.WriteString("=")
			sb.Write(a.Value)
		}
		out = append(out, sb.String())
	}
	return out
}

func historyGenesisAt(W, C int64, nAcc int, genesisUnix int64) chain.GenesisOpts {
	o := historyGenesis(W, C, nAcc)
	if genesisUnix != 0 {
		o.Time = time.Unix(genesisUnix, 0).UTC()
	}
	return o
}

func historyGenesis(W, C int64, nAcc int) chain.GenesisOpts {
	sp := chain.DefaultStorageParams()
	sp.ProofWindow, sp.CheckWindow, sp.CollateralPrice, sp.AttestFormSize, sp.AttestMinToPass = W, C, 5000, 2, 2
	return chain.GenesisOpts{NumAccounts: nAcc, Balance: sdk.NewCoins(sdk.NewInt64Coin("ujkl", 1_000_000_000_000), sdk.NewInt64Coin("uatom", 1_000_000_000)), Storage: &sp}
}

// replayHistory executes recorded bytes on a fresh app.
func replayHistory(h *recHistory) ([]blockResult, *chain.Chain) {
	return replayHistoryNoisy(h, false)
}

// queryPaths are gRPC query endpoints of the custom modules that take an empty (or all-default) request.
var queryPaths = []string{
	"/canine_chain.storage.Query/Params", "/canine_chain.storage.Query/AllFiles", "/canine_chain.storage.Query/AllProviders", "/canine_chain.storage.Query/ActiveProviders",
	"/canine_chain.storage.Query/Gauges", "/canine_chain.storage.Query/StorageStats", "/canine_chain.storage.Query/NetworkSize", "/canine_chain.storage.Query/AllProofs",
	"/canine_chain.storage.Query/AllAttestations", "/canine_chain.storage.Query/AllReports", "/canine_chain.storage.Query/AllStoragePaymentInfo", "/canine_chain.storage.Query/FreeSpace",
	"/canine_chain.rns.Query/Params", "/canine_chain.rns.Query/AllNames", "/canine_chain.rns.Query/AllBids", "/canine_chain.rns.Query/AllForSale",
	"/canine_chain.filetree.Query/Params", "/canine_chain.filetree.Query/AllFiles", "/canine_chain.filetree.Query/AllPubKeys",
	"/canine_chain.notifications.Query/Params", "/canine_chain.notifications.Query/AllNotifications",
	"/canine_chain.oracle.Query/Params", "/canine_chain.oracle.Query/AllFeeds",
	"/canine_chain.jklmint.Query/Params", "/canine_chain.jklmint.Query/Inflation", "/canine_chain.jklmint.Query/MintedTokens",
	"/cosmos.bank.v1beta1.Query/TotalSupply", "/cosmos.auth.v1beta1.Query/Params",
}

// replayHistoryNoisy replays the recorded blocks; a noisy replica additionally behaves like a node that serves RPC
// while it executes: between BeginBlock and the transactions, and between transactions, it answers queries
// against the last committed state and runs the mempool check on the transaction it is about to execute.  None of
// that may influence what block execution returns or commits.
func replayHistoryNoisy(h *recHistory, noisy bool) ([]blockResult, *chain.Chain) {
	if noisy {
		// ... and its host lives in another time zone than the primary's (one with daylight saving, or an odd offset)
		zones := []string{"America/New_York", "Europe/Berlin", "Australia/Lord_Howe", "Asia/Kathmandu", "America/Sao_Paulo"}
		if loc, err := time.LoadLocation(zones[len(h.Blocks)%len(zones)]); err == nil {
			saved := time.Local
			time.Local = loc
			defer func() { time.Local = saved }()
		}
	}
	if noisy {
		// ... on a host with a single core, so that anything the application hands to goroutines is scheduled differently
		defer runtime.GOMAXPROCS(runtime.GOMAXPROCS(1))
	}
	gopts := historyGenesisAt(h.Window, h.Check, h.NumAccounts, h.GenesisUnix)
	if noisy {
		// ... and its operator configured it differently: the settings an app.toml / the start flags carry
		gopts.NodeConfig = map[string]interface{}{
			"minimum-gas-prices": "0.025ujkl", "pruning": "everything", "halt-height": uint64(0), "halt-time": uint64(0), "min-retain-blocks": uint64(1),
			"inter-block-cache": true, "index-events": []string{"message.sender"}, "iavl-cache-size": 10, "telemetry.enabled": true, "api.enable": true, "grpc.enable": true,
			"state-sync.snapshot-interval": uint64(2), "wasm.query_gas_limit": uint64(1000), "wasm.memory_cache_size": uint32(1),
		}
	}
	c := chain.New(gopts)
	var out []blockResult
	noise := func(i, j int, raw []byte) {
		if !noisy {
			return
		}
		for k := 0; k < 3; k++ {
			c.Query(queryPaths[(i*7+(j+1)*3+k*11)%len(queryPaths)], nil)
		}
		if (j+1)%2 == 0 {
			c.Query("/canine_chain.storage.Query/Params", nil)
		}
		if raw != nil && (i+j)%3 != 0 {
			c.Check(raw)
		}
	}
	for i, b := range h.Blocks {
		var br blockResult
		res, bp := c.Begin(time.Duration(b.DtNanos))
		br.Height = c.Height
		if bp != nil {
			br.Panic = bp.Error()
			out = append(out, br)
			return out, c
		}
		br.Begin = flattenEvents(res.Events)
		noise(i, -1, nil)
		for j, t := range b.Txs {
			raw, _ := hex.DecodeString(t)
			noise(i, j, raw)
			r := c.Deliver(raw)
			br.Txs = append(br.Txs, txResult{r.Code, r.Codespace, r.GasWanted, r.GasUsed, hex.EncodeToString(r.Data), flattenEvents(r.Events)})
		}
		end, cm, bp := c.End()
		if bp != nil {
			br.Panic = bp.Error()
			out = append(out, br)
			return out, c
		}
		br.End = flattenEvents(end.Events)
		br.AppHash = hex.EncodeToString(cm.Data)
		out = append(out, br)
	}
	return out, c
}

// compareRuns returns a description of the first difference between two executions.
func compareRuns(a, b []blockResult) string {
	if len(a) != len(b) {
		return fmt.Sprintf("executions have %d and %d blocks", len(a), len(b))
	}
	for i := range a {
		x, y := a[i], b[i]
		if x.Panic != y.Panic {
			return fmt.Sprintf("block %d: panic %q vs %q", x.Height, x.Panic, y.Panic)
		}
		if d := diffStrings(x.Begin, y.Begin); d != "" {
			return fmt.Sprintf("block %d BeginBlock events differ: %s", x.Height, d)
		}
		if len(x.Txs) != len(y.Txs) {
			return fmt.Sprintf("block %d tx count differs", x.Height)
		}
		for j := range x.Txs {
			p, q := x.Txs[j], y.Txs[j]
			if p.Code != q.Code || p.Codespace != q.Codespace || p.GasWanted != q.GasWanted || p.GasUsed != q.GasUsed || p.Data != q.Data {
				return fmt.Sprintf("block %d tx %d results differ: code %d/%d gas %d/%d", x.Height, j, p.Code, q.Code, p.GasUsed, q.GasUsed)
			}
			if d := diffStrings(p.Events, q.Events); d != "" {
				return fmt.Sprintf("block %d tx %d events differ: %s", x.Height, j, d)
			}
		}
		if d := diffStrings(x.End, y.End); d != "" {
			return fmt.Sprintf("block %d EndBlock events differ: %s", x.Height, d)
		}
		if x.AppHash != y.AppHash {
			return fmt.Sprintf("block %d app hash differs: %s vs %s", x.Height, x.AppHash, y.AppHash)
		}
	}
	return ""
}

func diffStrings(a, b []string) string {
	if len(a) != len(b) {
		return fmt.Sprintf("%d vs %d entries", len(a), len(b))
	}
	for i := range a {
		if a[i] != b[i] {
			return fmt.Sprintf("entry %d: %q vs %q", i, trunc(a[i], 160), trunc(b[i], 160))
		}
	}
	return ""
}

// ---------- generation while executing ----------

type histBuilder struct {
	c       *chain.Chain
	rec     *recHistory
	results []blockResult
	cur     *blockResult
	curRec  *recBlock
	trace   []string
	accs    []chain.Account
	files   []*sFile
	provs   []chain.Account
	owners  []chain.Account
	// class flags
	multiProverReward bool
	multiSigner       bool
	aclWithManyIDs    bool
	formRequested     bool
}

func (b *histBuilder) logf(format string, a ...interface{}) {
	b.trace = append(b.trace, fmt.Sprintf("h=%d ", b.c.Height)+fmt.Sprintf(format, a...))
}

func (b *histBuilder) begin(dt time.Duration) string {
	res, bp := b.c.Begin(dt)
	b.results = append(b.results, blockResult{Height: b.c.Height})
	b.cur = &b.results[len(b.results)-1]
	b.rec.Blocks = append(b.rec.Blocks, recBlock{DtNanos: int64(dt)})
	b.curRec = &b.rec.Blocks[len(b.rec.Blocks)-1]
	if bp != nil {
		b.cur.Panic = bp.Error()
		return bp.Error()
	}
	b.cur.Begin = flattenEvents(res.Events)
	// class: a reward block with >= 2 provers
	if b.c.Height%b.rec.Check == 0 {
		n := map[string]bool{}
		for _, f := range b.c.App.StorageKeeper.GetAllFileByMerkle(b.c.DeliverCtx()) {
			for _, p := range f.Proofs {
				n[strings.SplitN(p, "/", 2)[0]] = true
			}
		}
		if len(n) >= 2 && len(b.c.App.StorageKeeper.GetAllPaymentGauges(b.c.DeliverCtx())) > 0 {
			b.multiProverReward = true
		}
	}
	return ""
}

func (b *histBuilder) end() string {
	end, cm, bp := b.c.End()
	if bp != nil {
		b.cur.Panic = bp.Error()
		return bp.Error()
	}
	b.cur.End = flattenEvents(end.Events)
	b.cur.AppHash = hex.EncodeToString(cm.Data)
	return ""
}

func (b *histBuilder) send(signer chain.Account, msg sdk.Msg) abci.ResponseDeliverTx {
	txb, err := b.c.SignTx(signer, 30_000_000, msg)
	if err != nil {
		b.logf("%s: cannot sign: %v", msgSummary(msg), err)
		return abci.ResponseDeliverTx{Code: 9999}
	}
	r := b.c.Deliver(txb)
	b.cur.Txs = append(b.cur.Txs, txResult{r.Code, r.Codespace, r.GasWanted, r.GasUsed, hex.EncodeToString(r.Data), flattenEvents(r.Events)})
	b.curRec.Txs = append(b.curRec.Txs, hex.EncodeToString(txb))
	b.logf("%s -> code %d %s", msgSummary(msg), r.Code, trunc(r.Log, 50))
	return r
}

// sendRaw delivers transaction bytes built elsewhere.
func (b *histBuilder) sendRaw(txb []byte, what string) abci.ResponseDeliverTx {
	r := b.c.Deliver(txb)
	b.cur.Txs = append(b.cur.Txs, txResult{r.Code, r.Codespace, r.GasWanted, r.GasUsed, hex.EncodeToString(r.Data), flattenEvents(r.Events)})
	b.curRec.Txs = append(b.curRec.Txs, hex.EncodeToString(txb))
	b.logf("%s -> code %d %s", what, r.Code, trunc(r.Log, 50))
	return r
}

func (b *histBuilder) ctx() sdk.Context { return b.c.DeliverCtx() }

func (b *histBuilder) postFile(owner chain.Account, content []byte, maxProofs int64) {
	b.postFileFor(owner, content, maxProofs, 0)
}

// postFileFor posts a plan-paid file (days == 0) or a file paid once for `days` days (its own gauge, calendar arithmetic).
func (b *histBuilder) postFileFor(owner chain.Account, content []byte, maxProofs, days int64) {
	f := buildFile(content, 1024)
	var expires int64
	if days > 0 {
		expires = b.c.Height + days*14400 + 7
	} else if days < 0 {
		expires = days // a negative expiry: accepted, and paid from the plan like an expiry of 0
	}
	r := b.send(owner, &storagetypes.MsgPostFile{Creator: owner.Bech, Merkle: f.Merkle, FileSize: f.FileSize, MaxProofs: maxProofs, Expires: expires, Note: "{}"})
	if r.Code == 0 {
		f.Owner, f.Start, f.MaxProofs = owner.Bech, b.c.Height, maxProofs
		b.files = append(b.files, f)
	}
}

func (b *histBuilder) prove(p chain.Account, f *sFile) {
	ch := int64(0)
	if pr, found := b.c.App.StorageKeeper.GetProof(b.ctx(), p.Bech, f.Merkle, f.Owner, f.Start); found {
		ch = pr.ChunkToProve
	}
	item, hl, err := f.honestProof(ch)
	if err != nil {
		return
	}
	b.send(p, &storagetypes.MsgPostProof{Creator: p.Bech, Item: item, HashList: hl, Merkle: f.Merkle, Owner: f.Owner, Start: f.Start, ToProve: ch})
}

// buildHistory generates and executes a history on a fresh primary app.
func buildHistory(rt *rapid.T, full bool) (*histBuilder, string) {
	W := rapid.Int64Range(3, 5).Draw(rt, "window")
	C := rapid.Int64Range(2, 5).Draw(rt, "check")
	nAcc := 10
	// One history in ten is anchored to the wall clock: its first block (where the price feed is stamped) lies a round
	// span D minus three seconds in the past, so that an execution a few seconds later sees everything stamped in that
	// block as "older than D" while this one sees it as younger. Block time is the only clock execution may consult.
	var genesisUnix int64
	if full && rapid.IntRange(0, 9).Draw(rt, "anchoredToWallClock") == 0 {
		d := rapid.SampledFrom([]time.Duration{24 * time.Hour, 24 * time.Hour, time.Hour, 12 * time.Hour, 48 * time.Hour, 7 * 24 * time.Hour, 30 * 24 * time.Hour, 10 * time.Minute, 0}).Draw(rt, "span")
		genesisUnix = time.Now().Add(-d).Unix() + 3 - 6 // the first block is 6 s after genesis
	}
	b := &histBuilder{c: chain.New(historyGenesisAt(W, C, nAcc, genesisUnix)), rec: &recHistory{Window: W, Check: C, NumAccounts: nAcc, GenesisUnix: genesisUnix}}
	for i := 0; i < nAcc; i++ {
		b.accs = append(b.accs, chain.Acc(i))
	}
	b.owners = b.accs[:2]
	nProv := rapid.IntRange(3, 5).Draw(rt, "providers")
	b.provs = b.accs[2 : 2+nProv]
	other := b.accs[2+nProv:]
	if p := b.begin(6 * time.Second); p != "" {
		return b, p
	}
	// ---- block 1: set everything up ----
	for i, p := range b.provs {
		b.send(p, storagetypes.NewMsgInitProvider(p.Bech, fmt.Sprintf("https://p%d.dom%d.com", i, i), 1_000_000_000, "kb"))
		b.send(p, &storagetypes.MsgAddClaimer{Creator: p.Bech, ClaimAddress: other[0].Bech})
	}
	for i, o := range b.owners {
		b.send(o, &storagetypes.MsgBuyStorage{Creator: o.Bech, ForAddress: o.Bech, DurationDays: int64(30 + 30*i), Bytes: int64(3+i) * 1_000_000_000, PaymentDenom: "ujkl", Referral: b.owners[(i+1)%2].Bech})
	}
	b.send(other[0], &oracletypes.MsgCreateFeed{Creator: other[0].Bech, Name: "jklprice"})
	b.send(other[0], &oracletypes.MsgUpdateFeed{Creator: other[0].Bech, Name: "jklprice", Data: `{"price":"0.31","24h_change":"1"}`})
	b.send(b.owners[0], newMsgRegisterName(b.owners[0].Bech, "alpha.jkl", 2, `{"a":"b"}`, true))
	b.send(b.owners[1], newMsgRegisterName(b.owners[1].Bech, "beta.ibc", 1, "{}", false))
	b.send(b.owners[1], newMsgRegisterName(b.owners[1].Bech, "alpha-beta.jkl", 1, "{}", false)) // a name that extends another one by a hyphenated tail
	b.send(b.owners[0], rnstypes.NewMsgAddRecord(b.owners[0].Bech, "alpha.jkl", "www", other[0].Bech, "{}"))
	b.send(b.owners[0], newMsgList(b.owners[0].Bech, "alpha.jkl", sdk.NewInt64Coin("ujkl", 5000)))
	b.send(other[0], rnstypes.NewMsgBid(other[0].Bech, "beta.ibc", sdk.NewInt64Coin("ujkl", 700)))
	b.send(other[0], rnstypes.NewMsgInit(other[0].Bech))
	o0 := b.owners[0]
	tn := "tn-root"
	b.send(o0, newMsgProvisionFileTree(o0.Bech, accessJSON("e", tn, o0.Bech), accessJSON("v", tn, o0.Bech), tn))
	b.send(o0, fttypes.NewMsgPostKey(o0.Bech, "pubkey-of-o0"))
	b.send(other[1], fttypes.NewMsgPostKey(strings.ToUpper(other[1].Bech), "pubkey-under-another-spelling")) // same account, upper-case bech32
	root := fttypes.MerklePath("s")
	b.send(o0, fttypes.NewMsgPostFile(o0.Bech, hexsha(o0.Bech), root, hexsha("home"), "contents", accessJSON("v", "tn1", o0.Bech), accessJSON("e", "tn1", o0.Bech), "tn1"))
	b.send(other[0], &notiftypes.MsgCreateNotification{Creator: other[0].Bech, To: o0.Bech, Contents: `{"hello":1}`})
	b.send(o0, &notiftypes.MsgBlockSenders{Creator: o0.Bech, ToBlock: []string{other[0].Bech}})
	b.postFile(b.owners[0], append([]byte{1}, c02Content(9000)...), int64(nProv)) // nine chunks: the challenge has room to move
	b.postFile(b.owners[1], append([]byte{2}, c02Content(700)...), 2)
	// a file paid once for a span of months (crosses daylight-saving switches of most zones that have them)
	b.postFileFor(b.owners[1], append([]byte{3}, c02Content(1200)...), 2, rapid.Int64Range(30, 400).Draw(rt, "payOnceDays"))
	for _, p := range b.provs {
		b.prove(p, b.files[0])
	}
	if p := b.end(); p != "" {
		return b, p
	}
	// ---- following blocks ----
	nBlocks := rapid.IntRange(8, 24).Draw(rt, "blocks")
	if !full {
		nBlocks = rapid.IntRange(4, 10).Draw(rt, "blocksShort")
	}
	urls := customMsgURLs(b.c)
	home := fttypes.MerklePath("s/home")
	for i := 0; i < nBlocks; i++ {
		dt := rapid.SampledFrom([]time.Duration{time.Second, 6 * time.Second, 6 * time.Second, time.Hour, 26 * time.Hour}).Draw(rt, "dt")
		if p := b.begin(dt); p != "" {
			return b, p
		}
		nTx := rapid.IntRange(0, 5).Draw(rt, "txs")
		for j := 0; j < nTx; j++ {
			switch rapid.IntRange(0, 12).Draw(rt, "action") {
			case 0, 1, 2: // provers prove (several in the same block)
				f := b.files[rapid.IntRange(0, len(b.files)-1).Draw(rt, "file")]
				k := rapid.IntRange(1, len(b.provs)).Draw(rt, "howManyProvers")
				for _, p := range b.provs[:k] {
					b.prove(p, f)
				}
			case 3:
				o := b.owners[rapid.IntRange(0, 1).Draw(rt, "owner")]
				var days int64
				switch rapid.IntRange(0, 5).Draw(rt, "payOnce") {
				case 0, 1:
					days = rapid.Int64Range(1, 800).Draw(rt, "days")
				case 2:
					days = rapid.SampledFrom([]int64{-1, -14400, math.MinInt64}).Draw(rt, "negativeExpiry")
				}
				b.postFileFor(o, append([]byte{byte(10 + len(b.files))}, c02Content(rapid.OneOf(rapid.Int64Range(1, 3000), rapid.Int64Range(3000, 12000)).Draw(rt, "size"))...), rapid.Int64Range(1, 4).Draw(rt, "maxProofs"), days)
			case 4: // attestation / report forms (height-seeded shuffles)
				f := b.files[rapid.IntRange(0, len(b.files)-1).Draw(rt, "file")]
				p := b.provs[rapid.IntRange(0, len(b.provs)-1).Draw(rt, "prover")]
				if rapid.Bool().Draw(rt, "attestOrReport") {
					b.send(p, newMsgRequestAttestationForm(p.Bech, f.Merkle, f.Owner, f.Start))
					for _, s := range b.provs {
						if rapid.Bool().Draw(rt, "signs") {
							b.send(s, newMsgAttest(s.Bech, p.Bech, f.Merkle, f.Owner, f.Start))
						}
					}
				} else {
					b.send(other[1], newMsgRequestReportForm(other[1].Bech, p.Bech, f.Merkle, f.Owner, f.Start))
					if rapid.Bool().Draw(rt, "signReport") {
						s := b.provs[rapid.IntRange(0, len(b.provs)-1).Draw(rt, "reporter")]
						b.send(s, newMsgReport(s.Bech, p.Bech, f.Merkle, f.Owner, f.Start))
					}
				}
				b.formRequested = true
			case 5: // ACL edits with several ids
				n := rapid.IntRange(2, 4).Draw(rt, "ids")
				var ids, keys []string
				for q := 0; q < n; q++ {
					ids = append(ids, hexsha(fmt.Sprintf("v%s%s", "tn1", b.accs[rapid.IntRange(0, len(b.accs)-1).Draw(rt, "member")].Bech)))
					keys = append(keys, fmt.Sprintf("k%d", q))
				}
				ownerHash := hexsha("o" + home + hexsha(o0.Bech))
				idList, keyList := strings.Join(ids, ","), strings.Join(keys, ",")
				switch rapid.IntRange(0, 5).Draw(rt, "sloppyLists") { // lists as careless clients write them: stray commas, a key left out
				case 0:
					idList += ","
					keys[rapid.IntRange(0, n-1).Draw(rt, "emptyKey")] = ""
					keyList = strings.Join(keys, ",") + ","
				case 1:
					idList, keyList = idList+",", keyList+","
				case 2:
					keys[0] = ""
					keyList = strings.Join(keys, ",")
				}
				if rapid.Bool().Draw(rt, "viewersOrEditors") {
					b.send(o0, &fttypes.MsgAddViewers{Creator: o0.Bech, ViewerIds: idList, ViewerKeys: keyList, Address: home, FileOwner: ownerHash})
				} else {
					b.send(o0, &fttypes.MsgAddEditors{Creator: o0.Bech, EditorIds: idList, EditorKeys: keyList, Address: home, FileOwner: ownerHash})
				}
				if n >= 3 {
					b.aclWithManyIDs = true
				}
			case 6:
				a := b.accs[rapid.IntRange(0, len(b.accs)-1).Draw(rt, "acc")]
				b.send(a, rnstypes.NewMsgBid(a.Bech, rapid.SampledFrom([]string{"alpha.jkl", "beta.ibc", "gamma.jkl"}).Draw(rt, "name"), sdk.NewInt64Coin("ujkl", rapid.Int64Range(1, 9999).Draw(rt, "bid"))))
			case 7:
				a := b.accs[rapid.IntRange(0, len(b.accs)-1).Draw(rt, "acc")]
				if rapid.IntRange(0, 2).Draw(rt, "blockSeveral") == 0 { // repeated fields carry several entries, some unresolvable
					n := rapid.IntRange(2, 4).Draw(rt, "entries")
					var tb []string
					for q := 0; q < n; q++ {
						tb = append(tb, rapid.SampledFrom([]string{b.accs[q%len(b.accs)].Bech, b.accs[(q+3)%len(b.accs)].Bech, "alpha.jkl", "beta.ibc", "nobody.jkl", "junk"}).Draw(rt, "toBlock"))
					}
					b.send(a, &notiftypes.MsgBlockSenders{Creator: a.Bech, ToBlock: tb})
					break
				}
				to := b.accs[rapid.IntRange(0, len(b.accs)-1).Draw(rt, "to")]
				b.send(a, &notiftypes.MsgCreateNotification{Creator: a.Bech, To: to.Bech, Contents: fmt.Sprintf(`{"n":%d}`, i*10+j)})
				if rapid.IntRange(0, 2).Draw(rt, "secondInTheSameBlock") == 0 { // same sender, same recipient, same block time
					b.send(a, &notiftypes.MsgCreateNotification{Creator: a.Bech, To: to.Bech, Contents: fmt.Sprintf(`{"n":%d,"again":true}`, i*10+j)})
				}
			case 8:
				o := b.owners[rapid.IntRange(0, 1).Draw(rt, "owner")]
				b.send(o, &storagetypes.MsgBuyStorage{Creator: o.Bech, ForAddress: o.Bech, DurationDays: rapid.SampledFrom([]int64{30, 60, 365}).Draw(rt, "days"), Bytes: rapid.SampledFrom([]int64{3_000_000_000, 6_000_000_000, 4_999_000_000_000, 5_000_000_000_000, 20_000_000_000_000}).Draw(rt, "bytes"), PaymentDenom: "ujkl"}) // sizes on the borders between price classes too
			case 9: // one transaction, two or three signers (one message each); some of them sign carelessly
				n := rapid.IntRange(2, 3).Draw(rt, "signers")
				first := rapid.IntRange(0, len(b.accs)-n).Draw(rt, "firstSigner")
				signers := append([]chain.Account{}, b.accs[first:first+n]...)
				var msgs []sdk.Msg
				delta, corrupt := make([]int64, n), make([]bool, n)
				for q, a := range signers {
					msgs = append(msgs, &notiftypes.MsgCreateNotification{Creator: a.Bech, To: b.accs[(first+q+1)%len(b.accs)].Bech, Contents: fmt.Sprintf(`{"m":%d}`, i*10+j)})
					switch rapid.IntRange(0, 3).Draw(rt, "care") {
					case 0:
						delta[q] = rapid.SampledFrom([]int64{-1, 1, -2}).Draw(rt, "seqDelta") // stale or future sequence number
					case 1:
						corrupt[q] = true // well-formed signature that does not verify
					}
				}
				txb, err := b.c.SignTxMulti(signers, delta, corrupt, 30_000_000, msgs...)
				if err != nil {
					b.logf("multi-signer tx: cannot sign: %v", err)
					break
				}
				b.sendRaw(txb, fmt.Sprintf("multi-signer tx of %d (seq deltas %v, corrupted %v)", n, delta, corrupt))
				b.multiSigner = true
			default: // adversarial tail: any message type, fields from the pools
				env := &fillEnv{Height: b.c.Height, Names: []string{"alpha.jkl", "beta.ibc", "jklprice"}, Strings: []string{root, home, hexsha(o0.Bech), "jklprice"}}
				for _, a := range b.accs {
					env.Accounts = append(env.Accounts, a.Bech)
				}
				for _, f := range b.files {
					env.Merkles = append(env.Merkles, f.Merkle)
					env.Starts = append(env.Starts, f.Start)
				}
				m := newMsgOf(b.c, urls[rapid.IntRange(0, len(urls)-1).Draw(rt, "type")])
				fillMsg(rt, m, env, nil)
				var signer *chain.Account
				func() {
					defer func() { _ = recover() }()
					s := m.GetSigners()
					for k := range b.accs {
						if len(s) == 1 && b.accs[k].Addr.Equals(s[0]) {
							signer = &b.accs[k]
						}
					}
				}()
				if signer != nil {
					b.send(*signer, m)
				}
			}
		}
		if i == nBlocks-1 && rapid.Bool().Draw(rt, "manySmallGauges") {
			// two dozen small files paid once for different spans: as many payment gauges, whose ids (digests) spread over
			// the whole key space of the gauge store
			for q := int64(1); q <= 24; q++ {
				b.postFileFor(b.owners[1], append([]byte{200, byte(q)}, c02Content(q)...), 1, q)
			}
		}
		if i == nBlocks-1 && rapid.Bool().Draw(rt, "fileWithoutMerkleRoot") {
			// nothing obliges a client to name a merkle root: such a file is stored and paid for like any other (nobody can
			// prove it, so it lives for one proof window - here it is posted in the last block)
			b.send(b.owners[0], &storagetypes.MsgPostFile{Creator: b.owners[0].Bech, FileSize: 10, MaxProofs: 1, Note: "{}"})
		}
		if i == nBlocks-1 && rapid.IntRange(0, 9).Draw(rt, "leaveFormsOpen") < 7 {
			// leave open forms behind: an attestation form and a report form about the same (prover, file)
			ctx := b.ctx()
			for _, f := range b.files {
				uf, ok := b.c.App.StorageKeeper.GetFile(ctx, f.Merkle, f.Owner, f.Start)
				if !ok || len(uf.Proofs) == 0 {
					continue
				}
				prover := strings.SplitN(uf.Proofs[0], "/", 2)[0]
				for _, p := range b.provs {
					if p.Bech == prover {
						b.send(p, newMsgRequestAttestationForm(p.Bech, f.Merkle, f.Owner, f.Start))
						b.send(other[1], newMsgRequestReportForm(other[1].Bech, p.Bech, f.Merkle, f.Owner, f.Start))
						b.formRequested = true
					}
				}
				break
			}
		}
		if p := b.end(); p != "" {
			return b, p
		}
	}
	return b, ""
}

func (h *recHistory) json() []byte {
	bz, _ := json.Marshal(h)
	return bz
}
