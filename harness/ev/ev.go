// Package ev collects, per property and per process (shard), what a check actually
// covered: cases generated, class counters, hashes of the distinct non-trivial cases,
// a few sampled cases written out, regression outcomes and violations.  The driver
// (/verif/check) merges the shard files into /verif/evidence/<ID>.json.
package ev

import (
	"encoding/json"
	"fmt"
	"hash/fnv"
	"os"
	"sort"
	"strings"
	"sync"
)

// Violation is one failing case found by the search phase.
type Violation struct {
	Sig     string      `json:"sig"`     // oracle clause (+ shape) that failed
	Message string      `json:"message"` // what was observed
	Trace   interface{} `json:"trace"`   // the (shrunk) case, human readable
	Sub     string      `json:"sub"`     // sub-test that found it (for replay)
	Seed    int64       `json:"seed"`
	Fail    string      `json:"failfile,omitempty"`
}

// Regression is the outcome of one plain-Go replay of a recorded finding.
type Regression struct {
	Sig        string `json:"sig"`
	Reproduced bool   `json:"reproduced"`
	Detail     string `json:"detail"`
}

// Rec is the collector of one property.
type Rec struct {
	mu          sync.Mutex
	Property    string           `json:"property"`
	Evaluations int64            `json:"evaluations"`
	Nontrivial  int64            `json:"nontrivial"`
	Counters    map[string]int64 `json:"counters"`
	hashes      map[uint64]struct{}
	Hashes      []uint64         `json:"hashes"`
	Samples     []interface{}    `json:"samples"`
	Violations  []Violation      `json:"violations"`
	Regressions []Regression     `json:"regressions"`
	Excluded    map[string]int64 `json:"excluded"` // cases altered by a known-finding exclusion
	Notes       []string         `json:"notes"`
	Exhaustive  map[string]bool  `json:"exhaustive,omitempty"`
	Completed   bool             `json:"completed"`
	Rule        string           `json:"rule"`
	Assumptions []string         `json:"assumptions"`
	last        *Violation
	maxSamples  int
}

var (
	mu   sync.Mutex
	recs = map[string]*Rec{}
)

// For returns the collector of a property (one per process).
func For(property string) *Rec {
	mu.Lock()
	defer mu.Unlock()
	if r, ok := recs[property]; ok {
		return r
	}
	r := &Rec{Property: property, Counters: map[string]int64{}, hashes: map[uint64]struct{}{},
		Excluded: map[string]int64{}, Exhaustive: map[string]bool{}, maxSamples: 6}
	recs[property] = r
	return r
}

// Describe sets the generation / non-triviality rule and the assumptions of the check.
func (r *Rec) Describe(rule string, assumptions ...string) {
	r.mu.Lock()
	r.Rule = rule
	r.Assumptions = assumptions
	r.mu.Unlock()
}

// Count adds to a class counter.
func (r *Rec) Count(class string) { r.Add(class, 1) }

func (r *Rec) Add(class string, n int64) {
	r.mu.Lock()
	r.Counters[class] += n
	r.mu.Unlock()
}

func (r *Rec) Exclude(tag string) {
	r.mu.Lock()
	r.Excluded[tag]++
	r.mu.Unlock()
}

func (r *Rec) Note(format string, a ...interface{}) {
	r.mu.Lock()
	r.Notes = append(r.Notes, fmt.Sprintf(format, a...))
	r.mu.Unlock()
}

// Hash is a helper to hash a case description.
func Hash(parts ...string) uint64 {
	h := fnv.New64a()
	for _, p := range parts {
		h.Write([]byte(p))
		h.Write([]byte{0})
	}
	return h.Sum64()
}

// Case records one completed (passing) generated case.  sample is only called when
// the case is kept as a sample.
func (r *Rec) Case(nontrivial bool, hash uint64, sample func() interface{}) {
	r.mu.Lock()
	defer r.mu.Unlock()
	r.Evaluations++
	if !nontrivial {
		return
	}
	r.Nontrivial++
	if _, dup := r.hashes[hash]; dup {
		return
	}
	r.hashes[hash] = struct{}{}
	n := int64(len(r.hashes))
	// keep the first 3 distinct non-trivial cases and then a few at doubling distances
	if sample != nil && len(r.Samples) < r.maxSamples && (n <= 3 || n&(n-1) == 0) {
		r.Samples = append(r.Samples, sample())
	}
}

// Fail remembers the latest failing case; rapid re-runs the minimal case last, so the
// one remembered when the check returns is the shrunk one.
func (r *Rec) Fail(v Violation) {
	r.mu.Lock()
	r.last = &v
	r.mu.Unlock()
}

// Flush turns the remembered failing case (if any) into a recorded violation.
func (r *Rec) Flush(sub string, seed int64, failfile string) bool {
	r.mu.Lock()
	defer r.mu.Unlock()
	if r.last == nil {
		return false
	}
	v := *r.last
	v.Sub, v.Seed, v.Fail = sub, seed, failfile
	r.Violations = append(r.Violations, v)
	r.last = nil
	return true
}

// ClearFail forgets a remembered failure (used after a passing check).
func (r *Rec) ClearFail() {
	r.mu.Lock()
	r.last = nil
	r.mu.Unlock()
}

func (r *Rec) Regress(sig string, reproduced bool, detail string) {
	r.mu.Lock()
	r.Regressions = append(r.Regressions, Regression{sig, reproduced, detail})
	r.mu.Unlock()
}

// WriteAll writes every collector to $VERIF_RESULT (a JSON object keyed by property).
func WriteAll(completed bool) {
	path := os.Getenv("VERIF_RESULT")
	if path == "" {
		return
	}
	mu.Lock()
	defer mu.Unlock()
	out := map[string]*Rec{}
	for k, r := range recs {
		r.mu.Lock()
		r.Hashes = r.Hashes[:0]
		for h := range r.hashes {
			r.Hashes = append(r.Hashes, h)
		}
		sort.Slice(r.Hashes, func(i, j int) bool { return r.Hashes[i] < r.Hashes[j] })
		r.Completed = completed
		out[k] = r
	}
	b, err := json.Marshal(out)
	for _, r := range recs {
		r.mu.Unlock()
	}
	if err != nil {
		fmt.Fprintln(os.Stderr, "ev: marshal:", err)
		return
	}
	tmp := path + ".tmp"
	if err := os.WriteFile(tmp, b, 0o644); err == nil {
		_ = os.Rename(tmp, path)
	}
}

// Known reports whether a finding signature is listed (status "known") in
// $VERIF_KNOWN_SIGS (comma separated, set by the driver from known_findings.json).
func Known(sig string) bool {
	for _, s := range strings.Split(os.Getenv("VERIF_KNOWN_SIGS"), ",") {
		if s == sig {
			return true
		}
	}
	return false
}
