package props

// C06 — state transitions are deterministic across nodes.

import (
	"encoding/json"
	"fmt"
	"os"
	"os/exec"
	"path/filepath"
	"testing"
	"time"

	"pgregory.net/rapid"

	"verifharness/chain"
	"verifharness/ev"
)

// TestC06Child is the fresh-process replayer: it loads a recorded history, executes it and writes the results.
func TestC06Child(t *testing.T) {
	in, out := os.Getenv("VERIF_C06_HISTORY"), os.Getenv("VERIF_C06_OUT")
	if in == "" {
		t.Skip("not a child run")
	}
	bz, err := os.ReadFile(in)
	must(err)
	var h recHistory
	must(json.Unmarshal(bz, &h))
	res, c := replayHistory(&h)
	c.Close()
	ob, _ := json.Marshal(res)
	must(os.WriteFile(out, ob, 0o644))
}

func childReplay(h *recHistory, tag string) ([]blockResult, error) {
	dir := filepath.Join(chain.WorkDir(), "c06")
	_ = os.MkdirAll(dir, 0o755)
	in, out := filepath.Join(dir, tag+".history.json"), filepath.Join(dir, tag+".result.json")
	must(os.WriteFile(in, h.json(), 0o644))
	defer os.Remove(in)
	defer os.Remove(out)
	bin := os.Getenv("VERIF_BINARY")
	if bin == "" {
		bin = os.Args[0]
	}
	cmd := exec.Command(bin, "-test.run", "^TestC06Child$", "-test.count=1")
	// the fresh process lives in another host environment: time zone with daylight saving, locale, core count, home
	cmd.Env = append(os.Environ(), "VERIF_C06_HISTORY="+in, "VERIF_C06_OUT="+out, "VERIF_RESULT=",
		"TZ=America/New_York", "LANG=tr_TR.UTF-8", "LC_ALL=tr_TR.UTF-8", "GOMAXPROCS="+[]string{"1", "3"}[len(h.Blocks)%2], "HOME=/nonexistent")
	if o, err := cmd.CombinedOutput(); err != nil {
		return nil, fmt.Errorf("child process failed: %v: %s", err, trunc(string(o), 400))
	}
	bz, err := os.ReadFile(out)
	if err != nil {
		return nil, err
	}
	var res []blockResult
	if err := json.Unmarshal(bz, &res); err != nil {
		return nil, err
	}
	return res, nil
}

func TestC06(t *testing.T) {
	rec := ev.For("C06")
	rec.Describe("ABCI-mode differential: a history of 5-25 blocks of signed transactions over all custom modules (several provers proving the same file so that they are credited equal sizes in the same reward block, funded gauges, attestation/report form requests with their height-seeded shuffles, file-tree ACL edits with 2-4 ids, name-service bids, notifications, plus adversarial reflective messages) is generated while executing on a primary app; the recorded signed bytes are then replayed on (i) a second independent app instance in the same process - every case; in every other case that instance also answers gRPC queries of all custom modules against the last committed state and runs the mempool check (CheckTx) on each transaction between the steps of block execution, as an RPC-serving node does, was started with different operator settings (minimum-gas-prices, pruning, inter-block cache, event indexing, telemetry ...), is limited to one core (GOMAXPROCS=1; histories contain transactions with two or three signers some of whom sign with a stale sequence number or a signature that does not verify) and runs with the process-local time zone set to one with daylight saving or an odd offset (the recorded histories contain files paid once for spans of months, whose gauges use calendar arithmetic), (ii) the same 1.1 s later - a sample; one history in ten is anchored to the wall clock (its first block, where the price feed is stamped, lies a round span - 10 min ... 30 days - minus 3 s in the past) and re-executed 4.2 s later, so that anything measured against the wall clock instead of block time falls on the other side of the span, (iii) a fresh child process of the same binary in another host environment (TZ, locale, GOMAXPROCS, HOME) - every 10th case in quick, every case in thorough. Compared block by block: AppHash, per-tx code/codespace/gas wanted/gas used/data and ordered events, ordered BeginBlock and EndBlock events. Non-trivial = a reward block saw >= 2 distinct listed provers with a live gauge, or an ACL message carried >= 3 ids, or a form was requested; distinct = distinct recorded histories.",
		"same binary, same machine: nondeterminism that needs another architecture, Go version or libwasmvm build is out of reach",
		"Go randomises map iteration per range statement, so a map-order dependence shows with probability >= 1/2 per affected block in (i)")
	if os_only_regress() {
		return
	}
	n := 0
	childEvery := 10
	if Tier() == "thorough" {
		childEvery = 1
	}
	search(t, rec, "differential", budget(60, 16000), 0, func(rt *rapid.T) {
		n++
		b, panicMsg := buildHistory(rt, true)
		defer b.c.Close()
		if panicMsg != "" {
			rt.Skip() // a panic in block processing is C05's subject; nothing to compare
		}
		// the second instance also serves queries and mempool checks while it executes (every other case)
		noisy := n%2 == 0
		second, c2 := replayHistoryNoisy(b.rec, noisy)
		c2.Close()
		if d := compareRuns(b.results, second); d != "" {
			if noisy {
				quietRun, c4 := replayHistory(b.rec)
				c4.Close()
				if compareRuns(b.results, quietRun) == "" {
					failf(rt, rec, "C06/queries-change-results", b.trace, "an instance that differs only in node-local conditions (it answers queries and mempool checks between the steps of block execution, lives in another time zone, on a single core, and was configured with other operator settings such as minimum-gas-prices, pruning, caches) disagrees with a plain one: %s", d)
				}
			}
			failf(rt, rec, "C06/same-process", b.trace, "two app instances in one process disagree: %s", d)
		}
		rec.Count("same-process-pairs")
		if noisy {
			rec.Count("pairs-with-interleaved-queries")
		}
		if n%7 == 0 || b.rec.GenesisUnix != 0 {
			if b.rec.GenesisUnix != 0 {
				time.Sleep(4200 * time.Millisecond) // past the round span the history is anchored to (see buildHistory)
				rec.Count("wall-clock-anchored-histories")
			} else {
				time.Sleep(1100 * time.Millisecond)
			}
			third, c3 := replayHistory(b.rec)
			c3.Close()
			if d := compareRuns(b.results, third); d != "" {
				failf(rt, rec, "C06/later-execution", b.trace, "an execution a few seconds later disagrees: %s", d)
			}
			rec.Count("delayed-pairs")
		}
		if n%childEvery == 0 {
			res, err := childReplay(b.rec, fmt.Sprintf("s%d-n%d", shardIndex(), n))
			if err != nil {
				rec.Note("child replay inconclusive: %v", err)
				rec.Count("child-inconclusive")
			} else {
				if d := compareRuns(b.results, res); d != "" {
					failf(rt, rec, "C06/fresh-process", b.trace, "a fresh process disagrees: %s", d)
				}
				rec.Count("fresh-process-pairs")
			}
		}
		nt := b.multiProverReward || b.aclWithManyIDs || b.formRequested
		if b.multiProverReward {
			rec.Count("reward-block-with->=2-provers")
		}
		if b.multiSigner {
			rec.Count("history-with-multi-signer-tx")
		}
		rec.Case(nt, ev.Hash(string(b.rec.json())), func() interface{} { return b.trace })
	})
}
