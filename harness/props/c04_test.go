package props

// C04 — storage payments are charged exactly and split without misdirecting tokens.

import (
	"fmt"
	"math/big"
	"strings"
	"testing"
	"time"

	sdk "github.com/cosmos/cosmos-sdk/types"
	"pgregory.net/rapid"

	oracletypes "github.com/jackalLabs/canine-chain/v4/x/oracle/types"
	storagetypes "github.com/jackalLabs/canine-chain/v4/x/storage/types"

	"verifharness/chain"
	"verifharness/ev"
)

type c04World struct {
	*storWorld
	referredOK   bool
	unexpectedOK int
	kinds        map[string]bool // fresh / upgrade / after-expiry successes seen
	payOnceOK    bool
	nameOf       map[int]string // account index -> registered rns name
}

// refPrice computes the price the chain computes, through its exported price function; ok=false if that panics.
func (w *c04World) refCost(gbs, hours int64) (c *big.Int, ok bool) {
	defer func() {
		if r := recover(); r != nil {
			c, ok = nil, false
		}
	}()
	return w.c.App.StorageKeeper.GetStorageCost(w.f.Ctx, gbs, hours).BigInt(), true
}

func (w *c04World) refCostKbs(kbs, hours int64) (c *big.Int, ok bool) {
	defer func() {
		if r := recover(); r != nil {
			c, ok = nil, false
		}
	}()
	return w.c.App.StorageKeeper.GetStorageCostKbs(w.f.Ctx, kbs, hours).BigInt(), true
}

func floorPct(x *big.Int, pct int64) *big.Int {
	v := new(big.Int).Mul(x, big.NewInt(pct))
	return v.Quo(v, big.NewInt(100)) // x >= 0 and pct may be negative only when the tx must fail
}

type c04Expect struct {
	mustFail  bool
	haveDebit bool
	debit     *big.Int
	discount  int64
	referred  bool
	referrer  string
	kind      string
}

func (w *c04World) resolveRef(ref string) (string, bool) {
	if ref == "" {
		return "", false
	}
	if a, err := sdk.AccAddressFromBech32(ref); err == nil {
		return a.String(), true
	}
	key, ok := canonKey(ref)
	if !ok {
		return "", false
	}
	for _, n := range w.c.App.RnsKeeper.GetAllNames(w.f.Ctx) {
		if n.Name+"."+n.Tld == key {
			if _, err := sdk.AccAddressFromBech32(n.Value); err == nil {
				return n.Value, true
			}
		}
	}
	return "", false
}

// canonAddr returns the canonical spelling of a bech32 address (all upper-case is a valid spelling of the same account).
func canonAddr(s string) string {
	if a, err := sdk.AccAddressFromBech32(s); err == nil {
		return a.String()
	}
	return s
}

func (w *c04World) expectBuy(m *storagetypes.MsgBuyStorage) c04Expect {
	e := c04Expect{}
	gb := int64(1_000_000_000)
	dur := time.Duration(m.DurationDays) * time.Hour * 24
	if m.DurationDays <= 0 || dur < 30*24*time.Hour || m.Bytes/gb <= 0 || m.PaymentDenom != "ujkl" {
		e.mustFail = true
		return e
	}
	hours := dur.Milliseconds() / 3_600_000
	cost, ok := w.refCost(m.Bytes/gb, hours)
	if !ok {
		return e // price not computable: only conservation is asserted
	}
	price := cost
	e.kind = "fresh"
	if pi, found := w.c.App.StorageKeeper.GetStoragePaymentInfo(w.f.Ctx, m.ForAddress); found {
		if pi.SpaceUsed > m.Bytes {
			e.mustFail = true
			return e
		}
		e.kind = "after-expiry"
		if pi.End.After(w.f.Time()) {
			e.kind = "upgrade"
			prorated := pi.End.Sub(w.f.Time())
			old, ok := w.refCost(pi.SpaceAvailable/gb, prorated.Milliseconds()/3_600_000)
			if !ok {
				return e
			}
			price = new(big.Int).Sub(cost, old)
			if price.Sign() <= 0 {
				e.mustFail = true
				return e
			}
		}
	}
	if ref, ok := w.resolveRef(m.Referral); ok && ref != canonAddr(m.Creator) { // a distinct referrer is a different ACCOUNT
		e.referred, e.referrer = true, ref
		if dur.Milliseconds() > 365*24*3_600_000 {
			e.discount = 5
		} else {
			e.discount = 10
		}
		price = floorPct(price, 100-e.discount)
	}
	if price.Sign() < 0 {
		e.mustFail = true
		return e
	}
	e.haveDebit, e.debit = true, price
	return e
}

// settle compares the balance changes of one message with the expectation.
func (w *c04World) settle(what string, payer string, e c04Expect, res chain.Result, before, after chain.Balances, supBefore sdk.Coins,
	gBefore, gAfter map[string]storagetypes.PaymentGauge, payOnce bool) (string, string) {
	diff := before.Diff(after)
	if !supBefore.IsEqual(w.f.AllSupply()) {
		return "C04/supply", what + " changed total supply"
	}
	if !res.OK() {
		if len(diff) != 0 {
			return "C04/failed-payment-moved-funds", fmt.Sprintf("%s failed (%v) but balances changed: %v", what, res, diff)
		}
		return "", ""
	}
	if e.mustFail {
		// which requests the chain refuses (minimum size and duration, denomination, downgrades) is policy, not part of the
		// property: a success is judged by the accounting clauses alone (no reference price is available for it)
		w.unexpectedOK++
	}
	p := w.params()
	delta := map[string]*big.Int{}
	for _, d := range diff {
		if d.Denom != "ujkl" {
			return "C04/foreign-denom", fmt.Sprintf("%s changed %s of %s", what, d.Denom, d.Addr)
		}
		delta[d.Addr] = d.Diff.BigInt()
	}
	get := func(a string) *big.Int {
		if v, ok := delta[a]; ok {
			return v
		}
		return new(big.Int)
	}
	paid := new(big.Int).Neg(get(payer))
	if e.haveDebit && paid.Cmp(e.debit) != 0 {
		return "C04/debit", fmt.Sprintf("%s: payer debited %s, price the chain computes is %s (kind=%s referred=%v discount=%d%%)", what, paid, e.debit, e.kind, e.referred, e.discount)
	}
	if paid.Sign() < 0 {
		return "C04/payer-credited", fmt.Sprintf("%s: payer gained %s", what, new(big.Int).Neg(paid))
	}
	// gauge: credit of each gauge account == growth of what its record says
	want := map[string]*big.Int{}
	add := func(a string, v *big.Int) {
		if want[a] == nil {
			want[a] = new(big.Int)
		}
		want[a].Add(want[a], v)
	}
	gaugeTotal := new(big.Int)
	for a, g := range gAfter {
		grow := g.Coins.AmountOf("ujkl").BigInt()
		if old, ok := gBefore[a]; ok {
			grow.Sub(grow, old.Coins.AmountOf("ujkl").BigInt())
		}
		if grow.Sign() != 0 || get(a).Sign() != 0 {
			if grow.Cmp(get(a)) != 0 {
				return "C04/gauge-funding", fmt.Sprintf("%s: gauge record grew by %s but its account received %s", what, grow, get(a))
			}
			gaugeTotal.Add(gaugeTotal, grow)
			add(a, grow)
		}
	}
	tol := map[string]int64{}
	if payOnce {
		spc := new(big.Int).Mul(paid, big.NewInt(100-p.ReferralCommission-p.PolRatio))
		spc.Quo(spc, big.NewInt(100))
		if gaugeTotal.Cmp(spc) != 0 {
			return "C04/pay-once-gauge", fmt.Sprintf("%s: paid %s, provider gauge funded with %s, expected floor(paid*(100-%d-%d)/100) = %s", what, paid, gaugeTotal, p.ReferralCommission, p.PolRatio, spc)
		}
	} else {
		pol := floorPct(paid, p.PolRatio-e.discount)
		add(polAddr, pol)
		tol[polAddr]++
		ref := floorPct(paid, p.ReferralCommission)
		if e.referred {
			add(e.referrer, ref)
			tol[e.referrer]++
		} else {
			add(feeCollectorAddr, ref)
			tol[feeCollectorAddr]++
		}
	}
	credits := new(big.Int)
	for a, v := range delta {
		if a == payer || a == storageModuleAddr {
			continue
		}
		if v.Sign() < 0 {
			return "C04/other-account-debited", fmt.Sprintf("%s: %s lost %s", what, a, v)
		}
		credits.Add(credits, v)
		wv, ok := want[a]
		if !ok {
			return "C04/unexpected-credit", fmt.Sprintf("%s: account %s received %s", what, a, v)
		}
		d := new(big.Int).Sub(v, wv)
		if d.CmpAbs(big.NewInt(tol[a])) > 0 {
			return "C04/split/" + w.role(a, e), fmt.Sprintf("%s: paid %s (pol %d%%, referral %d%%, discount %d%%, referred=%v): %s received %s, expected %s", what, paid, p.PolRatio, p.ReferralCommission, e.discount, e.referred, w.role(a, e), v, wv)
		}
	}
	for a, wv := range want {
		if a == payer {
			continue // a referrer can never be the payer; a gauge account neither
		}
		if _, ok := delta[a]; !ok && wv.CmpAbs(big.NewInt(tol[a])) > 0 {
			return "C04/split/" + w.role(a, e), fmt.Sprintf("%s: paid %s: %s received nothing, expected %s", what, paid, w.role(a, e), wv)
		}
	}
	if credits.Cmp(paid) > 0 {
		return "C04/credits-exceed-debit", fmt.Sprintf("%s: credits %s exceed the debit %s", what, credits, paid)
	}
	mod := new(big.Int).Sub(paid, credits)
	if get(storageModuleAddr).Cmp(mod) != 0 {
		return "C04/module-remainder", fmt.Sprintf("%s: storage module account changed by %s, debit - credits = %s", what, get(storageModuleAddr), mod)
	}
	return "", ""
}

func (w *c04World) role(a string, e c04Expect) string {
	switch a {
	case polAddr:
		return "protocol-liquidity account"
	case feeCollectorAddr:
		return "fee collector"
	case e.referrer:
		return "referrer"
	}
	return "gauge account"
}

func (w *c04World) gauges() map[string]storagetypes.PaymentGauge {
	out := map[string]storagetypes.PaymentGauge{}
	for _, g := range w.c.App.StorageKeeper.GetAllPaymentGauges(w.f.Ctx) {
		out[gaugeAddr(g)] = g
	}
	return out
}

func (w *c04World) buy(m *storagetypes.MsgBuyStorage) (string, string) {
	e := w.expectBuy(m)
	before, sup, gb := w.f.Snapshot(), w.f.AllSupply(), w.gauges()
	res := w.f.Exec(m)
	w.logf("BuyStorage creator=%s for=%s days=%d bytes=%d denom=%s referral=%q [kind=%s referred=%v] -> %s", short(m.Creator), short(m.ForAddress), m.DurationDays, m.Bytes, m.PaymentDenom, m.Referral, e.kind, e.referred, res)
	sig, msg := w.settle("BuyStorage", canonAddr(m.Creator), e, res, before, w.f.Snapshot(), sup, gb, w.gauges(), false)
	if sig == "" && res.OK() {
		w.kinds[e.kind] = true
		if e.referred {
			w.referredOK = true
		}
	}
	return sig, msg
}

func (w *c04World) payOnce(owner chain.Account, size, maxProofs, expires int64) (string, string) {
	e := c04Expect{}
	total := size * maxProofs
	kbs := total / 1000
	if kbs < 1024 {
		kbs = 1024
	}
	hours := ((expires - w.f.Height()) * 6 / 60) / 60
	if hours/24 <= 0 {
		e.mustFail = true
	} else if c, ok := w.refCostKbs(kbs, hours); ok && c.Sign() >= 0 {
		e.haveDebit, e.debit = true, c
	}
	m := &storagetypes.MsgPostFile{Creator: owner.Bech, Merkle: buildFile([]byte(fmt.Sprint("c04", size, expires, len(w.trace))), 1024).Merkle,
		FileSize: size, MaxProofs: maxProofs, Expires: expires, Note: "{}"}
	before, sup, gb := w.f.Snapshot(), w.f.AllSupply(), w.gauges()
	res := w.f.Exec(m)
	w.logf("pay-once PostFile by %s size=%d maxProofs=%d expires=%d (height %d) -> %s", short(owner.Bech), size, maxProofs, expires, w.f.Height(), res)
	sig, msg := w.settle("pay-once PostFile", owner.Bech, e, res, before, w.f.Snapshot(), sup, gb, w.gauges(), true)
	if sig == "" && res.OK() {
		w.payOnceOK = true
	}
	return sig, msg
}

func TestC04(t *testing.T) {
	rec := ev.For("C04")
	rec.Describe("fork-mode histories of 1-5 payments (BuyStorage and pay-once PostFile) under generated parameters: PolRatio/ReferralCommission with sum <= 100 (incl. PolRatio < 10), PricePerTbPerMonth 0..500, price feed absent / valid / malformed / zero / negative, payer balances 0..1e15, Bytes below 1 GB up to 50,000 GB (tier boundaries), durations around 29/30/365/366/3650 days and wrapping values, ForAddress self/other, Referral none/self/other address/never-used address/module accounts (which the bank refuses to credit)/registered name/unknown/junk, plan states none/active/expired from earlier purchases at earlier block times. Full balance snapshot (all accounts, all denoms), supply and gauge records before/after every message. Non-trivial = a successful referred purchase; distinct = distinct traces.",
		"the price is taken from the chain's exported GetStorageCost/GetStorageCostKbs (the property says 'the price the chain computes'); upgrade proration and the 5%/10% referral discount are recomputed independently",
		"coin amounts <= 1e15")
	c := chain.New(chain.GenesisOpts{NumAccounts: 6, Balance: sdk.NewCoins(sdk.NewInt64Coin("ujkl", 1_000_000_000_000_000)),
		Faucet: sdk.NewCoins(sdk.NewInt64Coin("ujkl", 1_000_000_000_000_000))})
	defer c.Close()
	newWorld := func() *c04World {
		return &c04World{storWorld: newStorWorld(c, 10), kinds: map[string]bool{}, nameOf: map[int]string{}}
	}

	// ---- plain regression replay: 3 TB / 30 d with a distinct referrer, default ratios ----
	{
		w := newWorld()
		sig, msg := w.buy(&storagetypes.MsgBuyStorage{Creator: chain.Acc(0).Bech, ForAddress: chain.Acc(0).Bech, DurationDays: 30, Bytes: 3_000_000_000_000, PaymentDenom: "ujkl", Referral: chain.Acc(1).Bech})
		rec.Regress("C04/split/referrer", sig != "", msg)
	}
	// ---- plain regression replay: self-referral through another spelling of the creator's address ----
	{
		w := newWorld()
		a := chain.Acc(0)
		sig, msg := w.buy(&storagetypes.MsgBuyStorage{Creator: strings.ToUpper(a.Bech), ForAddress: a.Bech, DurationDays: 30, Bytes: 3_000_000_000_000, PaymentDenom: "ujkl", Referral: a.Bech})
		rec.Regress("C04/debit/self-referral-by-spelling", sig != "", msg)
	}
	if os_only_regress() {
		return
	}

	search(t, rec, "history", budget(2500, 640000), 0, func(rt *rapid.T) {
		w := newWorld()
		fail := func(sig, msg string) {
			if sig != "" {
				failf(rt, rec, sig, w.trace, "%s", msg)
			}
		}
		// parameters
		refPct := rapid.SampledFrom([]int64{0, 1, 5, 25, 25, 33, 50, 90}).Draw(rt, "referralPct")
		polPct := rapid.Int64Range(0, 100-refPct).Draw(rt, "polPct")
		if rapid.IntRange(0, 2).Draw(rt, "defaultPol") == 0 && refPct <= 60 {
			polPct = 40
		}
		price := rapid.SampledFrom([]int64{0, 1, 8, 8, 15, 500}).Draw(rt, "pricePerTb")
		w.setParams(func(p *storagetypes.Params) {
			p.ReferralCommission, p.PolRatio, p.PricePerTbPerMonth = refPct, polPct, price
		})
		w.logf("params: referral %d%% pol %d%% pricePerTbPerMonth %d", refPct, polPct, price)
		// price feed
		switch feed := rapid.SampledFrom([]string{"absent", "absent", `{"price":"0.25","24h_change":"1"}`, `{"price":"0.000001"}`, `{"price":"1000"}`, `not json`, `{"price":"0"}`, `{"price":"-0.5"}`, `{"price":""}`}).Draw(rt, "feed"); feed {
		case "absent":
		default:
			owner := chain.Acc(5)
			if r := w.f.Exec(&oracletypes.MsgCreateFeed{Creator: owner.Bech, Name: "jklprice"}); !r.OK() {
				rt.Fatalf("create feed: %v", r)
			}
			if r := w.f.Exec(&oracletypes.MsgUpdateFeed{Creator: owner.Bech, Name: "jklprice", Data: feed}); !r.OK() {
				rt.Fatalf("update feed: %v", r)
			}
			w.logf("price feed data %s", feed)
		}
		// an rns name for account 2 (and sometimes for account 0 itself)
		if rapid.Bool().Draw(rt, "names") {
			for _, i := range []int{2, 0} {
				nm := fmt.Sprintf("refer%d.jkl", i)
				if r := w.f.Exec(newMsgRegisterName(chain.Acc(i).Bech, nm, 1, "{}", false)); r.OK() {
					w.nameOf[i] = nm
				}
			}
		}
		// payer balance
		payer := chain.Acc(0)
		if keep := rapid.SampledFrom([]int64{-1, -1, -1, 0, 1, 1_000_000, 40_000_000, 1_000_000_000}).Draw(rt, "payerBalance"); keep >= 0 {
			bal := w.c.App.BankKeeper.GetBalance(w.f.Ctx, payer.Addr, "ujkl").Amount
			must(w.c.App.BankKeeper.SendCoins(w.f.Ctx, payer.Addr, chain.Acc(chain.AccFaucet).Addr, sdk.NewCoins(sdk.NewCoin("ujkl", bal.SubRaw(keep)))))
			w.logf("payer acc0 left with %d ujkl", keep)
		}
		n := rapid.IntRange(1, 5).Draw(rt, "payments")
		var lastFor string
		var lastBytes, lastDays int64
		follow := 0
		for i := 0; i < n; i++ {
			if i > 0 {
				dt := rapid.SampledFrom([]time.Duration{0, time.Hour, 24 * time.Hour, 15 * 24 * time.Hour, 29 * 24 * time.Hour, 31 * 24 * time.Hour, 400 * 24 * time.Hour}).Draw(rt, "dt")
				if follow == 2 && lastDays > 0 && lastDays < 4000 { // go past the end of the last plan
					dt = time.Duration(lastDays)*24*time.Hour + rapid.SampledFrom([]time.Duration{-time.Second, 0, time.Second, 24 * time.Hour}).Draw(rt, "pastEnd")
				}
				w.f.SetBlock(w.f.Height()+int64(dt/(6*time.Second))+1, w.f.Time().Add(dt))
				w.logf("time advances by %s", dt)
			}
			creator := payer
			if rapid.IntRange(0, 5).Draw(rt, "otherPayer") == 0 {
				creator = chain.Acc(1)
			}
			if rapid.IntRange(0, 4).Draw(rt, "payOnce") == 0 {
				size := rapid.SampledFrom([]int64{1, 1000, 1_048_576, 5_000_000_000, 2_000_000_000_000}).Draw(rt, "size")
				mp := rapid.Int64Range(1, 5).Draw(rt, "maxProofs")
				exp := w.f.Height() + rapid.SampledFrom([]int64{1, 14_399, 14_400, 14_401, 30_000, 432_000, 5_256_000}).Draw(rt, "expiresIn")
				fail(w.payOnce(creator, size, mp, exp))
				if rapid.IntRange(0, 3).Draw(rt, "twinPost") == 0 { // an equal payment by somebody else in the same block
					fail(w.payOnce(chain.Acc(1), size, mp, exp))
					rec.Count("same-block-twin-payment")
				}
				continue
			}
			spelledCreator := creator.Bech
			if rapid.IntRange(0, 5).Draw(rt, "upperCaseCreator") == 0 {
				spelledCreator = strings.ToUpper(creator.Bech) // same account, other spelling
			}
			m := &storagetypes.MsgBuyStorage{Creator: spelledCreator, PaymentDenom: rapid.SampledFrom([]string{"ujkl", "ujkl", "ujkl", "ujkl", "uatom", ""}).Draw(rt, "denom")}
			m.ForAddress = creator.Bech
			if rapid.IntRange(0, 3).Draw(rt, "forOther") == 0 {
				m.ForAddress = chain.Acc(3).Bech
			}
			m.DurationDays = rapid.SampledFrom([]int64{1, 29, 30, 30, 31, 60, 365, 366, 730, 3650, 106751, 106752, 9223372036854775807 / 24}).Draw(rt, "days")
			m.Bytes = rapid.SampledFrom([]int64{999_999_999, 1_000_000_000, 3_000_000_000, 1_000_000_000_000, 3_000_000_000_000, 4_999_000_000_000, 5_000_000_000_000, 19_999_000_000_000, 20_000_000_000_000, 50_000_000_000_000}).Draw(rt, "bytes")
			refs := []string{"", "", creator.Bech, chain.Acc(2).Bech, chain.Acc(2).Bech, chain.Acc(4).Bech, "refer2.jkl", "refer2.jkl", "refer0.jkl", "REFER0.jkl", "unknown.jkl", "junk", polAddr, feeCollectorAddr,
				moduleAddr(rapid.SampledFrom([]string{"storage", "rns", "jklmint", "distribution", "gov", "bonded_tokens_pool", "collateral"}).Draw(rt, "moduleReferrer")), // accounts the bank refuses to credit
				strings.ToUpper(creator.Bech), strings.ToUpper(chain.Acc(2).Bech), // all-upper-case bech32 is a valid spelling of the same account
				chain.Acc(700 + rapid.IntRange(0, 40).Draw(rt, "freshReferrer")).Bech} // a valid address that has never been used on chain (no account record yet)
			m.Referral = rapid.SampledFrom(refs).Draw(rt, "referral")
			if follow > 0 && lastFor != "" { // follow-up on the plan bought last: upgrade / downgrade / renewal after expiry
				m.ForAddress, m.PaymentDenom = lastFor, "ujkl"
				if follow == 1 {
					m.Bytes = lastBytes * rapid.SampledFrom([]int64{1, 2, 2, 5}).Draw(rt, "grow")
					m.DurationDays = rapid.SampledFrom([]int64{30, 60, 365, 366, lastDays, lastDays * 2}).Draw(rt, "days2")
				}
			}
			before := len(w.kinds)
			_ = before
			sig, msg := w.buy(m)
			fail(sig, msg)
			if rapid.IntRange(0, 3).Draw(rt, "twinBuy") == 0 { // an equal purchase by somebody else in the same block
				twin := *m
				twin.Creator, twin.ForAddress = chain.Acc(1).Bech, chain.Acc(4).Bech
				if m.Creator == twin.Creator {
					twin.Creator = chain.Acc(3).Bech
				}
				fail(w.buy(&twin))
				rec.Count("same-block-twin-payment")
			}
			if pi, found := w.c.App.StorageKeeper.GetStoragePaymentInfo(w.f.Ctx, m.ForAddress); found && pi.Start.Equal(w.f.Time()) {
				lastFor, lastBytes, lastDays = m.ForAddress, m.Bytes, m.DurationDays
			}
			follow = rapid.IntRange(0, 2).Draw(rt, "follow")
		}
		for _, k := range []string{"fresh", "upgrade", "after-expiry"} {
			if w.kinds[k] {
				rec.Count("ok:" + k)
			}
		}
		if w.payOnceOK {
			rec.Count("ok:pay-once")
		}
		if w.unexpectedOK > 0 {
			rec.Count("histories-where-a-request-outside-the-current-policy-succeeded")
		}
		if w.referredOK {
			rec.Count("ok:referred")
		}
		rec.Case(w.referredOK, ev.Hash(w.trace...), func() interface{} { return w.trace })
	})
	_ = strings.Join
}
