package props

// Shared "storage world": a fork of the real app plus client/provider-side knowledge
// (file contents, Merkle trees) that the chain never sees.  All chain state is
// produced by real messages executed with runMsgs semantics, by parameter changes the
// module's validators accept, and by block boundaries.

import (
	"bytes"
	"crypto/sha256"
	"encoding/json"
	"fmt"
	"sort"
	"strings"
	"time"

	sdk "github.com/cosmos/cosmos-sdk/types"
	authtypes "github.com/cosmos/cosmos-sdk/x/auth/types"
	merkletree "github.com/wealdtech/go-merkletree/v2"
	"github.com/wealdtech/go-merkletree/v2/sha3"

	"github.com/jackalLabs/canine-chain/v4/x/storage"
	storagetypes "github.com/jackalLabs/canine-chain/v4/x/storage/types"
	storageutils "github.com/jackalLabs/canine-chain/v4/x/storage/utils"

	"verifharness/chain"
)

// sFile is what clients/providers know about a posted file.
type sFile struct {
	Merkle    []byte
	Owner     string
	Start     int64
	Content   []byte
	ChunkSize int64
	MaxProofs int64
	Expires   int64
	FileSize  int64 // as declared in the message
	tree      *merkletree.MerkleTree
	leaves    [][]byte
	chunks    [][]byte
}

func (f *sFile) id() string { return fmt.Sprintf("%x/%s/%d", f.Merkle[:4], short(f.Owner), f.Start) }

// buildFile builds the Merkle tree of a content exactly as the property describes it:
// leaf i = sha256(decimal(i) || hex(chunk_i)), tree hashed with sha3-512, unsalted.
func buildFile(content []byte, chunkSize int64) *sFile {
	f := &sFile{Content: content, ChunkSize: chunkSize}
	for i := int64(0); i*chunkSize < int64(len(content)); i++ {
		end := (i + 1) * chunkSize
		if end > int64(len(content)) {
			end = int64(len(content))
		}
		chunk := content[i*chunkSize : end]
		h := sha256.Sum256([]byte(fmt.Sprintf("%d%x", i, chunk)))
		f.chunks = append(f.chunks, chunk)
		f.leaves = append(f.leaves, h[:])
	}
	t, err := merkletree.NewUsing(f.leaves, sha3.New512(), false)
	must(err)
	f.tree = t
	f.Merkle = t.Root()
	f.FileSize = int64(len(content))
	return f
}

// numChunks is ceil(size / chunkSize).
func (f *sFile) numChunks() int64 { return int64(len(f.chunks)) }

// honestProof returns (item, hashlist JSON) for chunk i from the holder's own tree.
func (f *sFile) honestProof(i int64) ([]byte, []byte, error) {
	if i < 0 || i >= f.numChunks() {
		return nil, nil, fmt.Errorf("no chunk %d (file has %d)", i, f.numChunks())
	}
	p, err := f.tree.GenerateProof(f.leaves[i], 0)
	if err != nil {
		return nil, nil, err
	}
	b, err := json.Marshal(p)
	if err != nil {
		return nil, nil, err
	}
	return f.chunks[i], b, nil
}

// refVerify is the reference verifier written from the property text: the proof must
// be a Merkle path for leaf position `index` from sha256(decimal(index)||hex(item)) to root.
func refVerify(root []byte, index int64, item []byte, hashlist []byte) bool {
	var p merkletree.Proof
	if err := json.Unmarshal(hashlist, &p); err != nil {
		return false
	}
	if index < 0 || p.Index != uint64(index) {
		return false
	}
	leaf := sha256.Sum256([]byte(fmt.Sprintf("%d%x", index, item)))
	ok, err := merkletree.VerifyProofUsing(leaf[:], false, &p, [][]byte{root}, sha3.New512())
	return err == nil && ok
}

// utilsRoot is the root the repository's own client-side helper computes.
func utilsRoot(content []byte, chunkSize int64) ([]byte, error) {
	r, _, _, _, err := storageutils.BuildTree(bytes.NewReader(content), chunkSize)
	return r, err
}

type storWorld struct {
	batched   bool  // proofs travel in a transaction together with a proof for a file that is gone
	proofType int64 // the proof_type field of the files posted in this world (a free, informative field of MsgPostFile)
	c         *chain.Chain
	f         *chain.Fork
	trace     []string
	files     []*sFile
}

func newStorWorld(c *chain.Chain, height int64) *storWorld {
	return &storWorld{c: c, f: c.Fork(height, chain.GenesisTime.Add(time.Duration(height)*6*time.Second))}
}

func (w *storWorld) logf(format string, a ...interface{}) {
	w.trace = append(w.trace, fmt.Sprintf("h=%d ", w.f.Height())+fmt.Sprintf(format, a...))
}

func (w *storWorld) params() storagetypes.Params { return w.c.App.StorageKeeper.GetParams(w.f.Ctx) }

func (w *storWorld) setParams(mut func(*storagetypes.Params)) {
	p := w.params()
	mut(&p)
	w.c.App.StorageKeeper.SetParams(w.f.Ctx, p)
}

// advance moves to the next heights one by one, running the storage (and optionally
// mint) BeginBlocker at each, and returns the first panic (block processing panics are
// not recovered by the SDK).
func (w *storWorld) advanceTo(h int64, dt time.Duration, mint bool) *chain.BeginBlockResult {
	for w.f.Height() < h {
		w.f.SetBlock(w.f.Height()+1, w.f.Time().Add(dt))
		if r := w.f.BeginCustom(mint, true); r.Panic != nil {
			return &r
		}
	}
	return nil
}

func (w *storWorld) isRewardHeight(h int64) bool { return h%w.params().CheckWindow == 0 }

// postFile posts a real file (tree built from content).
func (w *storWorld) postFile(owner chain.Account, content []byte, maxProofs, expires int64) (*sFile, chain.Result) {
	cs := w.params().ChunkSize
	f := buildFile(content, cs)
	f.Owner, f.MaxProofs, f.Expires = owner.Bech, maxProofs, expires
	msg := &storagetypes.MsgPostFile{Creator: owner.Bech, Merkle: f.Merkle, FileSize: f.FileSize,
		ProofType: w.proofType, MaxProofs: maxProofs, Expires: expires, Note: "{}"}
	res := w.f.Exec(msg)
	if res.OK() {
		var resp storagetypes.MsgPostFileResponse
		must(res.Decode(&resp))
		f.Start = resp.StartBlock
		w.files = append(w.files, f)
	}
	w.logf("postFile by %s size=%d chunks=%d maxProofs=%d expires=%d proofType=%d -> %s", short(owner.Bech), f.FileSize, f.numChunks(), maxProofs, expires, w.proofType, res)
	return f, res
}

// postProofRaw sends a MsgPostProof and decodes its Success flag.
func (w *storWorld) postProofRaw(prover chain.Account, merkle []byte, owner string, start int64, item, hashlist []byte, toProve int64) (bool, string, chain.Result) {
	msg := &storagetypes.MsgPostProof{Creator: prover.Bech, Item: item, HashList: hashlist, Merkle: merkle, Owner: owner, Start: start, ToProve: toProve}
	var res chain.Result
	if w.batched {
		// providers answer the challenges of a window in one transaction, one message per file; among them there may be a
		// proof for a file that has vanished meanwhile (the provider cannot know) - it is answered, not accepted, and the
		// transaction with the other proofs stands
		gone := &storagetypes.MsgPostProof{Creator: prover.Bech, Item: item, HashList: hashlist, Merkle: append([]byte{0xde, 0xad}, merkle...), Owner: owner, Start: start, ToProve: toProve}
		res = w.f.ExecAtomic(gone, msg)
	} else {
		res = w.f.Exec(msg)
	}
	if !res.OK() {
		return false, res.String(), res
	}
	var resp storagetypes.MsgPostProofResponse
	must(res.Decode(&resp))
	return resp.Success, resp.ErrorMessage, res
}

// challenge returns the chunk the chain currently wants from prover for file f
// (0 for an account that is not yet a prover: that is what a joining prover is asked).
func (w *storWorld) challenge(prover string, f *sFile) (int64, bool) {
	p, found := w.c.App.StorageKeeper.GetProof(w.f.Ctx, prover, f.Merkle, f.Owner, f.Start)
	if !found {
		return 0, false
	}
	return p.ChunkToProve, true
}

// honestProve submits the proof an honest holder derives for the current challenge.
func (w *storWorld) honestProve(prover chain.Account, f *sFile) (bool, string, int64) {
	ch, _ := w.challenge(prover.Bech, f)
	item, hl, err := f.honestProof(ch)
	if err != nil {
		w.logf("honest proof by %s for %s: challenge %d not provable: %v", short(prover.Bech), f.id(), ch, err)
		return false, "challenge designates a non-existing chunk: " + err.Error(), ch
	}
	ok, emsg, _ := w.postProofRaw(prover, f.Merkle, f.Owner, f.Start, item, hl, ch)
	w.logf("honest proof by %s for %s chunk %d -> success=%v %s", short(prover.Bech), f.id(), ch, ok, emsg)
	return ok, emsg, ch
}

func (w *storWorld) getFile(f *sFile) (storagetypes.UnifiedFile, bool) {
	return w.c.App.StorageKeeper.GetFile(w.f.Ctx, f.Merkle, f.Owner, f.Start)
}

// listedProvers returns the prover addresses listed on the chain's file record.
func (w *storWorld) listedProvers(f *sFile) []string {
	uf, found := w.getFile(f)
	if !found {
		return nil
	}
	var out []string
	for _, pk := range uf.Proofs {
		out = append(out, strings.SplitN(pk, "/", 2)[0])
	}
	return out
}

func (w *storWorld) burned(provider string) (string, bool) {
	p, found := w.c.App.StorageKeeper.GetProviders(w.f.Ctx, provider)
	return p.BurnedContracts, found
}

func (w *storWorld) initProvider(acc chain.Account, ip string) chain.Result {
	res := w.f.Exec(storagetypes.NewMsgInitProvider(acc.Bech, ip, 1_000_000_000, "kb"))
	w.logf("initProvider %s ip=%s -> %s", short(acc.Bech), ip, res)
	return res
}

func (w *storWorld) buyStorage(creator chain.Account, forAddr string, days, bytes int64, referral string) chain.Result {
	msg := &storagetypes.MsgBuyStorage{Creator: creator.Bech, ForAddress: forAddr, DurationDays: days, Bytes: bytes, PaymentDenom: "ujkl", Referral: referral}
	res := w.f.Exec(msg)
	w.logf("buyStorage by %s for %s days=%d bytes=%d referral=%q -> %s", short(creator.Bech), short(forAddr), days, bytes, referral, res)
	return res
}

// restartStorage is what a restart from an exported genesis does to the storage module: its genesis is exported, its
// store emptied and the genesis imported again. The other modules (bank balances included) keep their state, as they
// would be carried over by their own genesis sections.
func (w *storWorld) restartStorage() {
	gs := storage.ExportGenesis(w.f.Ctx, w.c.App.StorageKeeper)
	w.f.WipeStore(storagetypes.StoreKey)
	storage.InitGenesis(w.f.Ctx, w.c.App.StorageKeeper, *gs)
	w.logf("restart: the storage module is rebuilt from its exported genesis")
}

var storageModuleAddr = func() string {
	chain.InitConfig()
	return authtypes.NewModuleAddress(storagetypes.ModuleName).String()
}()

// moduleAddr is the address of the module account with that name.
func moduleAddr(name string) string {
	chain.InitConfig()
	return authtypes.NewModuleAddress(name).String()
}

var feeCollectorAddr = func() string {
	chain.InitConfig()
	return authtypes.NewModuleAddress(authtypes.FeeCollectorName).String()
}()

func gaugeAddr(g storagetypes.PaymentGauge) string {
	a, err := storagetypes.GetGaugeAccount(g)
	must(err)
	return a.String()
}

func sortedStrings(m map[string]bool) []string {
	out := make([]string, 0, len(m))
	for k := range m {
		out = append(out, k)
	}
	sort.Strings(out)
	return out
}

var _ = sdk.NewInt
