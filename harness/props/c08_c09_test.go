package props

// C08 — a live name changes owner only with its current owner's consent, who is paid.
// C09 — bid escrow is conserved.
// One stateful generator (rapid state machine), two sets of oracles.

import (
	"fmt"
	"sort"
	"strings"
	"testing"

	sdk "github.com/cosmos/cosmos-sdk/types"
	"pgregory.net/rapid"

	alltypes "github.com/jackalLabs/canine-chain/v4/types"
	"github.com/jackalLabs/canine-chain/v4/x/rns"
	rnstypes "github.com/jackalLabs/canine-chain/v4/x/rns/types"

	"verifharness/chain"
	"verifharness/ev"
)

func rnsPol() (sdk.AccAddress, error) { return alltypes.GetPOLAccount() }

type rnsFailure struct{ sig, msg string }

// ---------- C08 oracle ----------

func c08Oracle(w *rnsWorld, st *rnsStep) *rnsFailure {
	h := st.Height
	for _, k := range sortedNameKeys(st.NamesBefore) {
		b := st.NamesBefore[k]
		if !(h < b.Expires) { // only strictly live names are protected (h == Expires: handlers disagree, nothing asserted)
			continue
		}
		a, ok := st.NamesAfter[k]
		if !ok {
			return &rnsFailure{"C08/live-name-vanished", fmt.Sprintf("live name %s disappeared after %s by %s", k, st.Kind, short(st.Signer))}
		}
		owner := b.Value
		ownerChanged := a.Value != owner
		contentChanged := a.Data != b.Data || a.Subs != b.Subs
		if !ownerChanged && !contentChanged {
			continue
		}
		if !st.Res.OK() {
			return &rnsFailure{"C08/failed-message-changed-name", fmt.Sprintf("%s failed (%v) but name %s changed", st.Kind, st.Res, k)}
		}
		if k != st.Key {
			return &rnsFailure{"C08/other-name-changed", fmt.Sprintf("%s on %q by %s changed live name %s (owner %s -> %s)", st.Kind, st.Name, short(st.Signer), k, short(owner), short(a.Value))}
		}
		if st.Signer != owner {
			// the only thing a non-owner may do to a live name: buy it through a listing created by the current owner
			if st.Kind == "buy" && st.HadListing && st.ListingModel.Creator == owner && ownerChanged && a.Value == st.Signer {
				paid := st.BalAfter.Get(owner, st.ListingModel.Price.Denom).Sub(st.BalBefore.Get(owner, st.ListingModel.Price.Denom))
				if !paid.Equal(st.ListingModel.Price.Amount) {
					return &rnsFailure{"C08/seller-not-paid-in-full", fmt.Sprintf("buy of %s at listed price %s: previous owner %s received %s", k, st.ListingModel.Price, short(owner), paid)}
				}
				continue
			}
			what := "data/records"
			if ownerChanged {
				what = fmt.Sprintf("owner %s -> %s", short(owner), short(a.Value))
			}
			detail := ""
			if st.Kind == "buy" && st.HadListing {
				detail = fmt.Sprintf(" (listing was created by %s, not by the current owner)", short(st.ListingModel.Creator))
				return &rnsFailure{"C08/stale-listing-buy", fmt.Sprintf("%s by %s changed live name %s: %s%s", st.Kind, short(st.Signer), k, what, detail)}
			}
			return &rnsFailure{"C08/non-owner-changed-live-name/" + st.Kind, fmt.Sprintf("%s by %s (not the owner %s) changed live name %s: %s", st.Kind, short(st.Signer), short(owner), k, what)}
		}
		// signer is the owner
		if ownerChanged {
			switch st.Kind {
			case "transfer":
				if a.Value != st.Receiver {
					return &rnsFailure{"C08/transfer-wrong-receiver", fmt.Sprintf("transfer of %s to %s made %s the owner", k, short(st.Receiver), short(a.Value))}
				}
			case "accept":
				if a.Value != st.From {
					return &rnsFailure{"C08/accept-wrong-bidder", fmt.Sprintf("accepting %s's bid on %s made %s the owner", short(st.From), k, short(a.Value))}
				}
				// the full price of a bid is what the bidder put into escrow for it (the model's account of what left the
				// bidder's balance and has not come back), not whatever figure the bid record carries
				want := st.EscrowModel
				if want.Empty() {
					want = st.BidsBefore[st.From+strings.ToLower(st.Name)]
				}
				for _, c := range want {
					got := st.BalAfter.Get(owner, c.Denom).Sub(st.BalBefore.Get(owner, c.Denom))
					if !got.Equal(c.Amount) {
						return &rnsFailure{"C08/accept-owner-not-paid", fmt.Sprintf("owner %s accepted bid %s on %s but received %s%s", short(owner), want, k, got, c.Denom)}
					}
				}
			default:
				return &rnsFailure{"C08/owner-change-by-unexpected-message/" + st.Kind, fmt.Sprintf("%s by the owner moved %s to %s", st.Kind, k, short(a.Value))}
			}
		}
	}
	return nil
}

// ---------- C09 oracle ----------

func coinsEq(a, b sdk.Coins) bool { return a.IsEqual(b) }

func c09Oracle(w *rnsWorld, st *rnsStep) *rnsFailure {
	mod := rnsModuleAddr()
	// 1. module account holds exactly the sum of open bids
	sum := sdk.NewCoins()
	for _, c := range st.BidsAfter {
		sum = sum.Add(c...)
	}
	bal := w.moduleBalance()
	if !coinsEq(sum, bal) {
		return &rnsFailure{"C09/module-balance-vs-open-bids", fmt.Sprintf("after %s by %s on %q: rns module account holds %q, open bids sum to %q", st.Kind, short(st.Signer), st.Name, bal.String(), sum.String())}
	}
	if !st.Res.OK() {
		if d := st.BalBefore.Diff(st.BalAfter); len(d) > 0 {
			return &rnsFailure{"C09/failed-message-moved-funds", fmt.Sprintf("%s failed but %v changed", st.Kind, d)}
		}
		// a bidder gets its escrow back by cancelling: a cancel of an open bid, addressed exactly as it is stored, cannot be refused
		if _, open := st.BidsBefore[st.Signer+st.Name]; open && st.Kind == "cancel" {
			return &rnsFailure{"C09/cancel-refused", fmt.Sprintf("%s cannot cancel its open bid on %q (escrowed %q): %s", short(st.Signer), st.Name, st.EscrowModel.String(), st.Res)}
		}
		return nil
	}
	lname := strings.ToLower(st.Name)
	delta := func(addr string) sdk.Coins {
		out := sdk.NewCoins()
		for _, d := range st.BalBefore.Diff(st.BalAfter) {
			if d.Addr == addr && d.Diff.IsPositive() {
				out = out.Add(sdk.NewCoin(d.Denom, d.Diff))
			}
		}
		return out
	}
	switch st.Kind {
	case "cancel":
		want := st.EscrowModel
		if got := delta(st.Signer); !coinsEq(got, want) {
			return &rnsFailure{"C09/cancel-refund", fmt.Sprintf("%s cancelled its bid on %q: got back %q, had escrowed (and not yet got back) %q", short(st.Signer), st.Name, got.String(), want.String())}
		}
		if _, still := st.BidsAfter[st.Signer+lname]; still {
			return &rnsFailure{"C09/cancel-bid-remains", "bid still listed after cancel"}
		}
	case "accept":
		want := st.EscrowModel
		if got := delta(st.Signer); !coinsEq(got, want) && st.Signer != st.From {
			return &rnsFailure{"C09/accept-payout", fmt.Sprintf("owner %s accepted %s's bid on %q: received %q, escrow for that bid was %q", short(st.Signer), short(st.From), st.Name, got.String(), want.String())}
		}
		if _, still := st.BidsAfter[st.From+lname]; still {
			return &rnsFailure{"C09/accept-bid-remains", "bid still listed after acceptance"}
		}
	case "register", "buy", "transfer", "list", "delist", "update", "addrecord", "delrecord", "init", "primary":
		if b, a := st.BalBefore.Get(mod, "ujkl"), st.BalAfter.Get(mod, "ujkl"); !a.Equal(b) {
			return &rnsFailure{"C09/residue", fmt.Sprintf("%s changed the rns module balance by %s", st.Kind, a.Sub(b))}
		}
	}
	return nil
}

// ---------- the state machine ----------

type rnsWeights struct{ bidHeavy bool }

func rnsMachine(rt *rapid.T, c *chain.Chain, wts rnsWeights, oracle func(*rnsWorld, *rnsStep) *rnsFailure, rec *ev.Rec) *rnsWorld {
	w := newRnsWorld(c, 4)
	pool := []string{"a.jkl", "a-b.jkl", "ab.jkl", "abc.ibc", "abcde.jkl", "abcde-f.jkl", "n4me.jkl", "x_y-z.ibc", "superjkl.jkl", "myibc.ibc"} // some names are a neighbour plus a hyphenated tail
	n := rapid.IntRange(2, 4).Draw(rt, "nNames")
	start := rapid.IntRange(0, len(pool)-1).Draw(rt, "pool")
	for i := 0; i < n; i++ {
		w.canon = append(w.canon, pool[(start+i)%len(pool)])
	}
	check := func(st *rnsStep) {
		if fl := oracle(w, st); fl != nil {
			failf(rt, rec, fl.sig, w.trace, "%s", fl.msg)
		}
		w.updateModel(st)
		if st.Res.OK() {
			rec.Count("ok:" + st.Kind)
		} else {
			rec.Count("rejected:" + st.Kind)
		}
	}
	// most names start out registered, so that the interesting paths are reachable early
	for _, key := range w.canon {
		if rapid.IntRange(0, 9).Draw(rt, "preregister") < 8 {
			s := w.drawAcc(rt, "registrant")
			check(w.run("register", s, key, newMsgRegisterName(s.Bech, key, rapid.Int64Range(1, 2).Draw(rt, "years"), "{}", false), nil))
		}
	}
	bidW := 1
	if wts.bidHeavy {
		bidW = 3
	}
	actions := map[string]func(*rapid.T){
		"register": func(rt *rapid.T) {
			key := w.drawCanon(rt)
			s := w.drawSigner(rt, key)
			years := rapid.Int64Range(1, 3).Draw(rt, "years")
			data := rapid.SampledFrom([]string{"{}", `{"k":"v"}`, "plain"}).Draw(rt, "data")
			sp := spell(rt, key)
			check(w.run("register", s, sp, newMsgRegisterName(s.Bech, sp, years, data, rapid.Bool().Draw(rt, "primary")), nil))
		},
		// a registrant that cannot afford the name (an account that holds a few coins only): the registration must fail and
		// move nothing, whatever the name-service module account happens to hold in escrow
		"registerByPauper": func(rt *rapid.T) {
			key := w.drawCanon(rt)
			p := chain.Acc(60 + rapid.IntRange(0, 3).Draw(rt, "pauper"))
			if bal := w.c.App.BankKeeper.GetBalance(w.f.Ctx, p.Addr, "ujkl"); bal.IsZero() && rapid.Bool().Draw(rt, "pocketMoney") {
				pocket := sdk.NewInt64Coin("ujkl", rapid.Int64Range(1, 3_000_000).Draw(rt, "coins"))
				for _, donor := range []chain.Account{w.accs[3], w.accs[2], w.accs[1], w.accs[0], chain.Acc(70)} { // whoever can spare it
					if w.c.App.BankKeeper.GetBalance(w.f.Ctx, donor.Addr, "ujkl").IsGTE(pocket) {
						must(w.c.App.BankKeeper.SendCoins(w.f.Ctx, donor.Addr, p.Addr, sdk.NewCoins(pocket)))
						break
					}
				}
			}
			sp := spell(rt, key)
			check(w.run("register", p, sp, newMsgRegisterName(p.Bech, sp, rapid.Int64Range(1, 2).Draw(rt, "years"), "{}", false), nil))
		},
		"list": func(rt *rapid.T) {
			key := w.drawCanon(rt)
			s := w.drawSigner(rt, key)
			sp := spell(rt, key)
			price := drawCoin(rt, "price")
			check(w.run("list", s, sp, newMsgList(s.Bech, sp, price), func(st *rnsStep) { st.Coin = price }))
		},
		"delist": func(rt *rapid.T) {
			key := w.drawCanon(rt)
			s := w.drawAcc(rt, "signer")
			sp := spell(rt, key)
			if len(w.listings) > 0 && rapid.IntRange(0, 9).Draw(rt, "listed") < 8 {
				ls := make([]string, 0, len(w.listings))
				for k := range w.listings {
					ls = append(ls, k)
				}
				sortStrings(ls)
				sp = ls[rapid.IntRange(0, len(ls)-1).Draw(rt, "listing")]
				if rapid.Bool().Draw(rt, "byCreator") {
					for _, a := range w.accs {
						if a.Bech == w.listings[sp].Creator {
							s = a
						}
					}
				}
			}
			check(w.run("delist", s, sp, &rnstypes.MsgDelist{Creator: s.Bech, Name: sp}, nil))
		},
		// the life of a listing across a lapse: the holder lists a name, lets it lapse, withdraws the listing (or not), registers
		// the name again, and somebody tries to buy it
		"listingAcrossALapse": func(rt *rapid.T) {
			key := w.drawCanon(rt)
			n, ok := w.names()[key]
			if !ok || w.f.Height() >= n.Expires {
				rt.Skip()
			}
			var holder chain.Account
			found := false
			for _, a := range w.accs {
				if a.Bech == n.Value {
					holder, found = a, true
				}
			}
			if !found {
				rt.Skip()
			}
			coin := sdk.NewInt64Coin("ujkl", rapid.Int64Range(1, 5000).Draw(rt, "askingPrice"))
			check(w.run("list", holder, key, newMsgList(holder.Bech, key, coin), func(st *rnsStep) { st.Coin = coin }))
			w.f.SetBlock(n.Expires+rapid.Int64Range(1, 3).Draw(rt, "afterExpiry"), w.f.Time().Add(6e9))
			w.logf("height %d: %s has lapsed", w.f.Height(), key)
			if rapid.IntRange(0, 3).Draw(rt, "withdraws") > 0 {
				check(w.run("delist", holder, key, &rnstypes.MsgDelist{Creator: holder.Bech, Name: key}, nil))
			}
			check(w.run("register", holder, key, newMsgRegisterName(holder.Bech, key, 1, "{}", false), nil))
			buyer := w.drawAcc(rt, "buyer")
			check(w.run("buy", buyer, key, newMsgBuy(buyer.Bech, key), nil))
		},
		// a name changes hands while it is listed; then somebody who does not hold it lists it (cheaply) and a third account
		// tries to buy it
		"relistAfterHandOver": func(rt *rapid.T) {
			key := w.drawCanon(rt)
			n, ok := w.names()[key]
			if !ok || w.f.Height() >= n.Expires {
				rt.Skip()
			}
			var holder chain.Account
			found := false
			for _, a := range w.accs {
				if a.Bech == n.Value {
					holder, found = a, true
				}
			}
			if !found {
				rt.Skip()
			}
			coin := sdk.NewInt64Coin("ujkl", rapid.Int64Range(1, 5000).Draw(rt, "askingPrice"))
			check(w.run("list", holder, key, newMsgList(holder.Bech, key, coin), func(st *rnsStep) { st.Coin = coin }))
			recv := w.drawAcc(rt, "receiver")
			check(w.run("transfer", holder, key, rnstypes.NewMsgTransfer(holder.Bech, key, recv.Bech), func(st *rnsStep) { st.Receiver = recv.Bech }))
			lister := w.drawAcc(rt, "lister")
			cheap := sdk.NewInt64Coin("ujkl", rapid.Int64Range(0, 3).Draw(rt, "cheapPrice"))
			check(w.run("list", lister, key, newMsgList(lister.Bech, key, cheap), func(st *rnsStep) { st.Coin = cheap }))
			buyer := w.drawAcc(rt, "buyer")
			check(w.run("buy", buyer, key, newMsgBuy(buyer.Bech, key), nil))
		},
		"buy": func(rt *rapid.T) {
			key := w.drawCanon(rt)
			s := w.drawAcc(rt, "signer")
			sp := spell(rt, key)
			if len(w.listings) > 0 && rapid.IntRange(0, 9).Draw(rt, "listed") < 8 {
				ls := make([]string, 0, len(w.listings))
				for k := range w.listings {
					ls = append(ls, k)
				}
				sortStrings(ls)
				sp = ls[rapid.IntRange(0, len(ls)-1).Draw(rt, "listing")]
			}
			st := w.run("buy", s, sp, newMsgBuy(s.Bech, sp), nil)
			if st.HadListing && st.NamesBefore[st.Key].Value != st.ListingModel.Creator {
				w.staleAttempt = true
			}
			check(st)
		},
		"bid": func(rt *rapid.T) {
			key := w.drawCanon(rt)
			if rapid.IntRange(0, 9).Draw(rt, "unregistered") == 0 {
				key = "nobody.jkl"
			}
			s := w.drawAcc(rt, "signer")
			sp := spell(rt, key)
			coin := drawCoin(rt, "bid")
			check(w.run("bid", s, sp, rnstypes.NewMsgBid(s.Bech, sp, coin), func(st *rnsStep) {
				st.Coin = coin
				st.EscrowModel = w.escrow[s.Bech+strings.ToLower(sp)]
			}))
		},
		// a bidder whose money is tied up in its standing bid changes that bid: its free balance alone does not cover the
		// new amount, free balance plus the old escrow does
		"rebidTiedUp": func(rt *rapid.T) {
			bids := w.openBids()
			slots := make([]string, 0, len(bids))
			for k, c := range bids {
				if len(c) == 1 && c[0].Denom == "ujkl" && c[0].Amount.IsInt64() && c[0].Amount.Int64() >= 2 {
					slots = append(slots, k)
				}
			}
			sort.Strings(slots)
			if len(slots) == 0 {
				rt.Skip()
			}
			slot := slots[rapid.IntRange(0, len(slots)-1).Draw(rt, "slot")]
			var s chain.Account
			ok := false
			for _, a := range w.accs {
				if strings.HasPrefix(slot, a.Bech) {
					s, ok = a, true
				}
			}
			if !ok {
				rt.Skip()
			}
			name := slot[len(s.Bech):]
			old := bids[slot][0].Amount.Int64()
			free := rapid.Int64Range(0, old-1).Draw(rt, "freeBalance")
			if bal := w.c.App.BankKeeper.GetBalance(w.f.Ctx, s.Addr, "ujkl").Amount; bal.GT(sdk.NewInt(free)) {
				must(w.c.App.BankKeeper.SendCoins(w.f.Ctx, s.Addr, chain.Acc(70).Addr, sdk.NewCoins(sdk.NewCoin("ujkl", bal.SubRaw(free)))))
			}
			coin := sdk.NewInt64Coin("ujkl", rapid.Int64Range(free+1, free+old).Draw(rt, "newBid"))
			w.logf("%s keeps %d ujkl free besides its standing bid of %d on %q", short(s.Bech), free, old, name)
			check(w.run("bid", s, name, rnstypes.NewMsgBid(s.Bech, name, coin), func(st *rnsStep) {
				st.Coin = coin
				st.EscrowModel = w.escrow[s.Bech+strings.ToLower(name)]
			}))
			w.tiedUp = true
		},
		"cancel": func(rt *rapid.T) {
			key := w.drawCanon(rt)
			s := w.drawAcc(rt, "signer")
			sp := spell(rt, key)
			// prefer an existing slot
			if bids := w.openBids(); len(bids) > 0 && rapid.IntRange(0, 9).Draw(rt, "existing") < 8 {
				slots := make([]string, 0, len(bids))
				for k := range bids {
					slots = append(slots, k)
				}
				sortStrings(slots)
				slot := slots[rapid.IntRange(0, len(slots)-1).Draw(rt, "slot")]
				for _, a := range w.accs {
					if strings.HasPrefix(slot, a.Bech) {
						s, sp = a, strings.TrimPrefix(slot, a.Bech)
					}
				}
			}
			st := w.run("cancel", s, sp, newMsgCancelBid(s.Bech, sp), func(st *rnsStep) {
				st.EscrowModel = w.escrow[s.Bech+strings.ToLower(sp)]
			})
			if st.Res.OK() && w.rebid {
				w.cancelAfterRebid = true
			}
			check(st)
		},
		"accept": func(rt *rapid.T) {
			key := w.drawCanon(rt)
			s := w.drawSigner(rt, key)
			sp := spell(rt, key)
			from := w.drawAcc(rt, "from")
			upperFrom := rapid.IntRange(0, 7).Draw(rt, "upperCaseFrom") == 0 // all-upper-case bech32 is a valid spelling of the same account
			if bids := w.openBids(); len(bids) > 0 && rapid.IntRange(0, 9).Draw(rt, "existingBid") < 8 {
				slots := make([]string, 0, len(bids))
				for k := range bids {
					slots = append(slots, k)
				}
				sortStrings(slots)
				slot := slots[rapid.IntRange(0, len(slots)-1).Draw(rt, "slot")]
				for _, a := range w.accs {
					if strings.HasPrefix(slot, a.Bech) {
						from, sp = a, strings.TrimPrefix(slot, a.Bech)
						if k, ok := canonKey(sp); ok {
							s = w.drawSigner(rt, k)
						}
					}
				}
			}
			fromSpelled := from.Bech
			if upperFrom {
				fromSpelled = strings.ToUpper(from.Bech)
			}
			check(w.run("accept", s, sp, rnstypes.NewMsgAcceptBid(s.Bech, sp, fromSpelled), func(st *rnsStep) {
				st.From = from.Bech
				st.EscrowModel = w.escrow[from.Bech+strings.ToLower(sp)]
			}))
		},
		"transfer": func(rt *rapid.T) {
			key := w.drawCanon(rt)
			s := w.drawSigner(rt, key)
			sp := spell(rt, key)
			to := w.drawAcc(rt, "to")
			check(w.run("transfer", s, sp, rnstypes.NewMsgTransfer(s.Bech, sp, to.Bech), func(st *rnsStep) { st.Receiver = to.Bech }))
		},
		// one transaction whose last message fails: what its first message did (a transfer by the owner, or a bid) is
		// discarded with it, in the store and everywhere else
		"rolledBackBatch": func(rt *rapid.T) {
			key := w.drawCanon(rt)
			s := w.drawSigner(rt, key)
			to := w.drawAcc(rt, "to")
			var first sdk.Msg = rnstypes.NewMsgTransfer(s.Bech, key, to.Bech)
			what := "transfer to " + short(to.Bech)
			if rapid.Bool().Draw(rt, "bidInstead") {
				coin := drawCoin(rt, "bid")
				first, what = rnstypes.NewMsgBid(s.Bech, key, coin), "bid "+coin.String()
			}
			failing := rnstypes.NewMsgTransfer(s.Bech, "no-such-name-at-all.jkl", to.Bech)
			st := &rnsStep{Kind: "rolled-back transaction", Signer: s.Bech, Name: key, Key: key, Height: w.f.Height()}
			st.NamesBefore, st.BalBefore, st.BidsBefore = w.names(), w.f.Snapshot(), w.openBids()
			st.Res = w.f.ExecAtomic(first, failing)
			st.NamesAfter, st.BalAfter, st.BidsAfter = w.names(), w.f.Snapshot(), w.openBids()
			w.logf("one transaction by acc%d: %s of %q, then a message that fails -> %s", s.Index, what, key, st.Res)
			if st.Res.OK() {
				failf(rt, rec, "C08/harness", w.trace, "the batch was meant to fail")
			}
			for k, b := range st.NamesBefore {
				if st.NamesAfter[k] != b {
					failf(rt, rec, "C08/failed-message-changed-name", w.trace, "a transaction that failed as a whole changed %s: %+v -> %+v", k, b, st.NamesAfter[k])
				}
			}
			if len(st.BidsBefore) != len(st.BidsAfter) || len(st.BalBefore.Diff(st.BalAfter)) != 0 {
				failf(rt, rec, "C09/failed-message-moved-funds", w.trace, "a transaction that failed as a whole changed bids or balances: %v", st.BalBefore.Diff(st.BalAfter))
			}
			rec.Count("rolled-back-transactions")
		},
		"update": func(rt *rapid.T) {
			key := w.drawCanon(rt)
			s := w.drawSigner(rt, key)
			sp := spell(rt, key)
			if rapid.IntRange(0, 4).Draw(rt, "threeLabels") == 0 { // "record.name.tld" handed to a handler that expects "name.tld"
				other := w.drawCanon(rt)
				sp = rapid.SampledFrom([]string{"www", "mail", other[:strings.LastIndex(other, ".")]}).Draw(rt, "label") + "." + key
				if rapid.Bool().Draw(rt, "anySigner") {
					s = w.drawAcc(rt, "signer2")
				}
			}
			check(w.run("update", s, sp, rnstypes.NewMsgUpdate(s.Bech, sp, rapid.SampledFrom([]string{"{}", `{"a":1}`, "zzz"}).Draw(rt, "data")), nil))
		},
		"addrecord": func(rt *rapid.T) {
			key := w.drawCanon(rt)
			s := w.drawSigner(rt, key)
			sp := spell(rt, key)
			labels := []string{"www", "mail", "WWW"}
			for _, c := range w.canon { // record labels that coincide with the label of another registered name
				labels = append(labels, c[:strings.LastIndex(c, ".")])
			}
			recName := rapid.SampledFrom(labels).Draw(rt, "record")
			check(w.run("addrecord", s, sp, rnstypes.NewMsgAddRecord(s.Bech, sp, recName, w.drawAcc(rt, "value").Bech, "{}"), nil))
		},
		"delrecord": func(rt *rapid.T) {
			key := w.drawCanon(rt)
			s := w.drawSigner(rt, key)
			recName := rapid.SampledFrom([]string{"www", "mail"}).Draw(rt, "record")
			sp := recName + "." + key
			st := w.run("delrecord", s, sp, rnstypes.NewMsgDelRecord(s.Bech, sp), nil)
			st.Key = key // a record message addresses the parent name's record
			check(st)
		},
		"init": func(rt *rapid.T) {
			s := w.drawAcc(rt, "signer")
			before := w.names()
			check(w.run("init", s, "", rnstypes.NewMsgInit(s.Bech), nil))
			// the free name it hands out is a name like any other from now on: others will try to register over it, buy it,
			// bid on it, file records under it
			for _, k := range sortedNameKeys(w.names()) {
				if _, had := before[k]; !had && len(w.canon) < 8 {
					w.canon = append(w.canon, k)
					w.logf("free name %s joins the names in play", k)
				}
			}
		},
		"primary": func(rt *rapid.T) {
			key := w.drawCanon(rt)
			s := w.drawAcc(rt, "signer")
			sp := spell(rt, key)
			check(w.run("primary", s, sp, &rnstypes.MsgMakePrimary{Creator: s.Bech, Name: sp}, nil))
		},
		"advance": func(rt *rapid.T) {
			h := w.f.Height()
			var nh int64
			names := w.names()
			keys := sortedNameKeys(names)
			switch k := rapid.IntRange(0, 5).Draw(rt, "jump"); {
			case k <= 2 || len(keys) == 0:
				nh = h + rapid.Int64Range(1, 10).Draw(rt, "dh")
			default:
				exp := names[keys[rapid.IntRange(0, len(keys)-1).Draw(rt, "whichExpiry")]].Expires
				nh = exp + rapid.Int64Range(-2, 2).Draw(rt, "aroundExpiry")
			}
			if nh <= h {
				nh = h + 1
			}
			w.f.SetBlock(nh, w.f.Time().Add(6e9))
			w.logf("advance to height %d", nh)
		},
	}
	if bidW > 1 { // weight bids up by registering the same action under more names
		actions["bid2"], actions["bid3"], actions["cancel2"], actions["accept2"] = actions["bid"], actions["bid"], actions["cancel"], actions["accept"]
	}
	rt.Repeat(actions)
	return w
}

func sortStrings(s []string) {
	for i := 1; i < len(s); i++ {
		for j := i; j > 0 && s[j] < s[j-1]; j-- {
			s[j], s[j-1] = s[j-1], s[j]
		}
	}
}

func rnsGenesis() chain.GenesisOpts {
	return chain.GenesisOpts{NumAccounts: 4,
		Balance: sdk.NewCoins(sdk.NewInt64Coin("ujkl", 100_000_000_000), sdk.NewInt64Coin("uatom", 1_000_000_000),
			sdk.NewCoin("aeth", sdk.NewIntWithDecimal(1, 45)))}
}

// scenario helpers for the plain regression replays
func (w *rnsWorld) do(kind string, s chain.Account, name string, msg sdk.Msg, extra func(*rnsStep), oracle func(*rnsWorld, *rnsStep) *rnsFailure) *rnsFailure {
	st := w.run(kind, s, name, msg, extra)
	fl := oracle(w, st)
	w.updateModel(st)
	return fl
}

func TestC08(t *testing.T) {
	rec := ev.For("C08")
	rec.Describe("stateful (rapid state machine) histories of register/list/delist/buy/bid/accept/cancel/transfer/update/add-record/del-record/init/make-primary messages by 4 accounts over 2-4 names (spelling variants: case, non-dot separator) with height jumps to just before/at/after expiries, executed with runMsgs semantics on a fork of the real app; after every message all Names records and all balances are compared with the previous snapshot. Non-trivial = an ownership move happened while a listing or bid created under an earlier owner still existed (or a buy through such a stale listing was attempted); distinct = distinct traces.",
		"a name at height == Expires is treated as neither live nor expired (handlers disagree by one block)",
		"ante handler (signature/fee) not run in this check: the signer is the message's creator (C11 checks that binding)")
	c := chain.New(rnsGenesis())
	defer c.Close()

	// ---- plain regression replay: list -> transfer -> buy (stale listing) ----
	{
		w := newRnsWorld(c, 4)
		A, B, C := w.accs[0], w.accs[1], w.accs[2]
		var fl *rnsFailure
		steps := []func() *rnsFailure{
			func() *rnsFailure {
				return w.do("register", A, "abcde.jkl", newMsgRegisterName(A.Bech, "abcde.jkl", 1, "{}", false), nil, c08Oracle)
			},
			func() *rnsFailure {
				p := sdk.NewInt64Coin("ujkl", 777)
				return w.do("list", A, "abcde.jkl", newMsgList(A.Bech, "abcde.jkl", p), func(st *rnsStep) { st.Coin = p }, c08Oracle)
			},
			func() *rnsFailure {
				return w.do("transfer", A, "abcde.jkl", rnstypes.NewMsgTransfer(A.Bech, "abcde.jkl", B.Bech), func(st *rnsStep) { st.Receiver = B.Bech }, c08Oracle)
			},
			func() *rnsFailure {
				return w.do("buy", C, "abcde.jkl", newMsgBuy(C.Bech, "abcde.jkl"), nil, c08Oracle)
			},
		}
		for _, s := range steps {
			if fl = s(); fl != nil {
				break
			}
		}
		if fl != nil {
			rec.Regress("C08/stale-listing-buy", true, fl.msg+" | history: "+strings.Join(w.trace, " ; "))
		} else {
			rec.Regress("C08/stale-listing-buy", false, "")
		}
	}
	if os_only_regress() {
		return
	}

	search(t, rec, "history", budget(2500, 480000), 35, func(rt *rapid.T) {
		w := rnsMachine(rt, c, rnsWeights{}, c08Oracle, rec)
		rec.Count("histories")
		if w.moveWithStaleListing {
			rec.Count("move-with-stale-listing-or-bid")
		}
		if w.staleAttempt {
			rec.Count("buy-attempt-through-stale-listing")
		}
		rec.Case(w.moveWithStaleListing || w.staleAttempt, ev.Hash(w.trace...), func() interface{} { return w.trace })
	})
}

func TestC09(t *testing.T) {
	rec := ev.For("C09")
	rec.Describe("same stateful generator as C08 with bid/cancel/accept weighted up (repeated bids by one account on one name with different amounts and denominations, bids on unregistered names); after every message: rns module balance (all denoms) == sum of open bids read from the store; cancel refunds exactly what the bidder escrowed for the slot and had not got back; accept pays the owner exactly that; other messages leave the module balance unchanged; at the end of every history the name-service genesis is exported and imported into a fresh store, where the open bids must still add up to the module balance. Non-trivial = a second bid hit an existing (bidder,name) slot; distinct = distinct traces.",
		"bid prices are read back from the Bids store; escrow per slot is tracked from observed balance changes of the bidder")
	c := chain.New(rnsGenesis())
	defer c.Close()

	// ---- plain regression replay: bid 5, bid 7, cancel ----
	{
		w := newRnsWorld(c, 4)
		A := w.accs[0]
		var fl *rnsFailure
		bid := func(amt int64) *rnsFailure {
			coin := sdk.NewInt64Coin("ujkl", amt)
			return w.do("bid", A, "abcde.jkl", rnstypes.NewMsgBid(A.Bech, "abcde.jkl", coin), func(st *rnsStep) {
				st.Coin = coin
				st.EscrowModel = w.escrow[A.Bech+"abcde.jkl"]
			}, c09Oracle)
		}
		if fl = bid(5); fl == nil {
			if fl = bid(7); fl == nil {
				fl = w.do("cancel", A, "abcde.jkl", newMsgCancelBid(A.Bech, "abcde.jkl"), func(st *rnsStep) { st.EscrowModel = w.escrow[A.Bech+"abcde.jkl"] }, c09Oracle)
			}
		}
		if fl != nil {
			rec.Regress("C09/rebid-overwrites-without-refund", true, fl.msg+" | history: "+strings.Join(w.trace, " ; "))
		} else {
			rec.Regress("C09/rebid-overwrites-without-refund", false, "")
		}
	}
	if os_only_regress() {
		return
	}

	search(t, rec, "history", budget(2500, 480000), 35, func(rt *rapid.T) {
		w := rnsMachine(rt, c, rnsWeights{bidHeavy: true}, c09Oracle, rec)
		rec.Count("histories")
		// "always" includes a restart from an exported genesis: the bank module carries the module account's balance
		// over unchanged, so the bids that come back from the name service's own export/import must still add up to it.
		{
			gs := rns.ExportGenesis(w.f.Ctx, c.App.RnsKeeper)
			fresh := c.Fork(w.f.Height(), w.f.Time())
			rns.InitGenesis(fresh.Ctx, c.App.RnsKeeper, *gs)
			sum, lapsed := sdk.NewCoins(), false
			for _, b := range c.App.RnsKeeper.GetAllBids(fresh.Ctx) {
				coins, err := sdk.ParseCoinsNormalized(b.Price)
				if err == nil {
					sum = sum.Add(coins...)
				}
			}
			names := w.names()
			for slot := range w.openBids() {
				for k, n := range names {
					if strings.HasSuffix(slot, k) && n.Expires < w.f.Height() {
						lapsed = true
					}
				}
			}
			if lapsed {
				rec.Count("exported-with-an-open-bid-on-a-lapsed-name")
			}
			if bal := w.moduleBalance(); !coinsEq(sum, bal) {
				w.logf("export the name-service genesis at height %d and import it into a fresh store", w.f.Height())
				failf(rt, rec, "C09/genesis-roundtrip-vs-open-bids", w.trace, "after an export/import of the name-service genesis the open bids sum to %q, the module account (carried over by the bank module) holds %q", sum.String(), bal.String())
			}
		}
		if w.rebid {
			rec.Count("rebid-on-existing-slot")
		}
		if w.cancelAfterRebid {
			rec.Count("cancel-after-rebid")
		}
		if w.tiedUp {
			rec.Count("histories-with-a-re-bid-by-a-bidder-whose-money-is-tied-up")
		}
		rec.Case(w.rebid, ev.Hash(w.trace...), func() interface{} { return w.trace })
	})
}
