#!/bin/bash
# benignsweep.sh <dir-with-patch.diff>...: apply each property-preserving change to a scratch worktree of /repo HEAD and run ALL
# twenty quick checks against it; any exit code other than 0 is a false alarm to be analysed. One line per (change, check).
export GOFLAGS=-mod=mod GOPROXY=off GOSUMDB=off GOTOOLCHAIN=local
VH="$(cd "$(dirname "$0")/.." && pwd)"   # the checkout these tools belong to: /verif, or a snapshot of it made by vp run
mkdir -p /tmp/mut
k=0
for d in "$@"; do
  k=$((k+1))
  (
    wt=/tmp/mut/bn$k
    git -C /repo worktree remove --force $wt 2>/dev/null; git -C /repo worktree prune
    git -C /repo worktree add --detach -q $wt HEAD || exit 2
    if ! git -C $wt apply $d/patch.diff; then echo "$(basename $d) PATCH-DOES-NOT-APPLY"; git -C /repo worktree remove --force $wt; exit; fi
    if ! (cd $wt && go build ./... ) 2>/tmp/mut/bn$k.err; then echo "$(basename $d) DOES-NOT-BUILD $(head -2 /tmp/mut/bn$k.err | tr '\n' ' ')"; git -C /repo worktree remove --force $wt; exit; fi
    for i in $(seq -w 1 20); do
      res=$(cd $VH && VERIF_REPO=$wt ./check C$i quick 2>&1); rc=$?
      echo "$(basename $d) C$i rc=$rc $(echo "$res" | grep "^  C[0-9][0-9]/" | head -1 | cut -c1-220)"
    done
    git -C /repo worktree remove --force $wt
    rm -f $VH/.work/bin/harness-_tmp_mut_bn$k.test $VH/.work/alt-_tmp_mut_bn$k.*
  ) > /tmp/mut/benign_$k.out 2>&1 &
  # at most ${MAXJOBS:-3} changes in flight
  while [ $(jobs -r | wc -l) -ge ${MAXJOBS:-3} ]; do sleep 5; done
done
wait
cat /tmp/mut/benign_*.out
